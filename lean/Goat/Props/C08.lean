import Goat.Model.Scope
/-!
# C08 — names resolve by Go's lexical block scoping

The symbol table keeps, for a name `x`, the chain `x ↦ s₀, ~x ↦ s₁, ~~x ↦ s₂, …` of the slots of
the bindings of `x` that are currently in scope, innermost first. The theorems below are about
that chain, for **every** chain length (every nesting depth):

* `shadow_shifts` — `shadow` moves every entry of the chain one level out and frees level 0
  (and touches no other name);
* `unshadow_unshifts` — `unshadow` moves every entry one level in, **leaving no `~` entry
  behind** (this is false of the code before the repair of `unshadow`; the suite's depth-1
  shapes cannot see it);
* `declare_outer` / `declare_same_scope` / `index_visible` — what a declaration does;
* `drop_one_restores` — closing one slot restores exactly what its declaration shadowed;
* `redeclare_then_close` — a declaration that shadows, followed by the close of its slot, is the
  identity on the whole table, at every depth: the outer binding and its slot are visible again.

PARTIAL: the full statement — for every well-bracketed history the table equals the
stack-of-frames environment (`scope_refines`) — is composed from these lemmas by an induction
over `Drop`'s loop that is not yet done in Lean; it is checked by the correspondence against a
native stack-of-frames environment and against the Go toolchain.
-/
namespace Goat.Props.C08
open Goat.Scope

theorem get_put (t : Tbl) (k k' : Key) (n : Nat) :
    (t.put k n).get k' = if k' = k then some n else t.get k' := by
  unfold Tbl.put Tbl.get
  rw [Std.HashMap.getElem?_insert]
  by_cases h : k = k'
  · subst h; simp
  · have : ¬ k' = k := fun e => h e.symm
    simp [h, this]

theorem get_del (t : Tbl) (k k' : Key) :
    (t.del k).get k' = if k' = k then none else t.get k' := by
  unfold Tbl.del Tbl.get
  rw [Std.HashMap.getElem?_erase]
  by_cases h : k = k'
  · subst h; simp
  · have : ¬ k' = k := fun e => h e.symm
    simp [h, this]

/-- the chain of `x` from level `k` on is contiguous and shorter than `fuel` -/
structure Chain (t : Tbl) (x : String) (k fuel : Nat) : Prop where
  short : ∀ j, (t.get (k + j, x)).isSome → j < fuel
  contig : ∀ j, (t.get (k + j + 1, x)).isSome → (t.get (k + j, x)).isSome

private theorem chain_none {t : Tbl} {x : String} {k fuel : Nat} (h : Chain t x k fuel)
    (h0 : t.get (k, x) = none) : ∀ j, t.get (k + j, x) = none := by
  intro j
  induction j with
  | zero => simpa using h0
  | succ j ih =>
    cases hj : t.get (k + (j + 1), x) with
    | none => rfl
    | some n =>
      have := h.contig j (by rw [show k + j + 1 = k + (j + 1) by omega, hj]; rfl)
      rw [ih] at this
      cases this

/-- **shadow shifts the chain out by one level**, whatever its length, and changes nothing else -/
theorem shadow_shifts (x : String) : ∀ (fuel k : Nat) (t : Tbl), Chain t x k fuel →
    (shadowT fuel k x t).get (k, x) = none ∧
    (∀ j, (shadowT fuel k x t).get (k + j + 1, x) = t.get (k + j, x)) ∧
    (∀ key : Key, (key.2 ≠ x ∨ key.1 < k) → (shadowT fuel k x t).get key = t.get key) := by
  intro fuel
  induction fuel with
  | zero =>
    intro k t h
    have hn : ∀ j, t.get (k + j, x) = none := by
      intro j
      cases hj : t.get (k + j, x) with
      | none => rfl
      | some n => exact absurd (h.short j (by rw [hj]; rfl)) (by omega)
    refine ⟨by simp only [shadowT]; simpa using hn 0, fun j => ?_, fun _ _ => rfl⟩
    simp only [shadowT]
    rw [show k + j + 1 = k + (j + 1) by omega, hn, hn]
  | succ fuel ih =>
    intro k t h
    unfold shadowT
    cases h0 : t.get (k, x) with
    | none =>
      have hn := chain_none h h0
      refine ⟨h0, fun j => ?_, fun _ _ => rfl⟩
      simp only
      rw [show k + j + 1 = k + (j + 1) by omega, hn, hn]
    | some n =>
      simp only
      have h' : Chain t x (k + 1) fuel := by
        constructor
        · intro j hj
          have := h.short (j + 1) (by rw [show k + (j + 1) = k + 1 + j by omega]; exact hj)
          omega
        · intro j hj
          have := h.contig (j + 1) (by rw [show k + (j + 1) + 1 = k + 1 + j + 1 by omega]; exact hj)
          rw [show k + (j + 1) = k + 1 + j by omega] at this
          exact this
      obtain ⟨i1, i2, i3⟩ := ih (k + 1) t h'
      refine ⟨?_, ?_, ?_⟩
      · rw [get_del]; simp
      · intro j
        rw [get_del, get_put]
        cases j with
        | zero => simp [h0]
        | succ j =>
          have e1 : ¬ ((k + (j + 1) + 1, x) : Key) = (k, x) := by intro e; injection e with e _; omega
          have e2 : ¬ ((k + (j + 1) + 1, x) : Key) = (k + 1, x) := by intro e; injection e with e _; omega
          simp only [e1, e2, if_false]
          rw [show k + (j + 1) + 1 = k + 1 + j + 1 by omega, i2 j]
          rw [show k + 1 + j = k + (j + 1) by omega]
      · intro key hk
        rw [get_del, get_put]
        have e1 : ¬ key = (k, x) := by
          intro e; subst e; simp at hk
        have e2 : ¬ key = (k + 1, x) := by
          intro e; subst e; simp at hk <;> omega
        simp only [e1, e2, if_false]
        exact i3 key (by rcases hk with h1 | h1; exact Or.inl h1; exact Or.inr (by omega))

/-- **unshadow shifts the chain in by one level and leaves no stale `~` entry**: with level `k`
    free, every level above moves down by one (so the last level becomes free), at every depth -/
theorem unshadow_unshifts (x : String) : ∀ (fuel k : Nat) (t : Tbl), Chain t x (k + 1) fuel →
    t.get (k, x) = none →
    (∀ j, (unshadowT fuel k x t).get (k + j, x) = t.get (k + j + 1, x)) ∧
    (∀ key : Key, (key.2 ≠ x ∨ key.1 < k) → (unshadowT fuel k x t).get key = t.get key) := by
  intro fuel
  induction fuel with
  | zero =>
    intro k t h h0
    have hn : ∀ j, t.get (k + 1 + j, x) = none := by
      intro j
      cases hj : t.get (k + 1 + j, x) with
      | none => rfl
      | some n => exact absurd (h.short j (by rw [hj]; rfl)) (by omega)
    refine ⟨fun j => ?_, fun _ _ => rfl⟩
    simp only [unshadowT]
    cases j with
    | zero => rw [show k + 0 + 1 = k + 1 + 0 by omega, hn]; simpa using h0
    | succ j => rw [show k + (j + 1) = k + 1 + j by omega, hn, show k + 1 + j + 1 = k + 1 + (j + 1) by omega, hn]
  | succ fuel ih =>
    intro k t h h0
    unfold unshadowT
    cases h1 : t.get (k + 1, x) with
    | none =>
      have hn := chain_none h h1
      refine ⟨fun j => ?_, fun _ _ => rfl⟩
      simp only
      cases j with
      | zero => rw [show k + 0 + 1 = k + 1 + 0 by omega, hn]; simpa using h0
      | succ j => rw [show k + (j + 1) = k + 1 + j by omega, hn, show k + 1 + j + 1 = k + 1 + (j + 1) by omega, hn]
    | some n =>
      simp only
      -- the table after moving level k+1 to level k
      have g2 : ∀ key : Key, ((t.put (k, x) n).del (k + 1, x)).get key =
          if key = (k + 1, x) then none else if key = (k, x) then some n else t.get key := by
        intro key; rw [get_del, get_put]
      have h' : Chain ((t.put (k, x) n).del (k + 1, x)) x (k + 1 + 1) fuel := by
        constructor
        · intro j hj
          rw [g2] at hj
          have e1 : ¬ ((k + 1 + 1 + j, x) : Key) = (k + 1, x) := by intro e; injection e with e _; omega
          have e2 : ¬ ((k + 1 + 1 + j, x) : Key) = (k, x) := by intro e; injection e with e _; omega
          simp only [e1, e2, if_false] at hj
          have := h.short (j + 1) (by rw [show k + 1 + (j + 1) = k + 1 + 1 + j by omega]; exact hj)
          omega
        · intro j hj
          rw [g2] at hj ⊢
          have e1 : ¬ ((k + 1 + 1 + j + 1, x) : Key) = (k + 1, x) := by intro e; injection e with e _; omega
          have e2 : ¬ ((k + 1 + 1 + j + 1, x) : Key) = (k, x) := by intro e; injection e with e _; omega
          have e3 : ¬ ((k + 1 + 1 + j, x) : Key) = (k + 1, x) := by intro e; injection e with e _; omega
          have e4 : ¬ ((k + 1 + 1 + j, x) : Key) = (k, x) := by intro e; injection e with e _; omega
          simp only [e1, e2, e3, e4, if_false] at hj ⊢
          have := h.contig (j + 1) (by rw [show k + 1 + (j + 1) + 1 = k + 1 + 1 + j + 1 by omega]; exact hj)
          rw [show k + 1 + (j + 1) = k + 1 + 1 + j by omega] at this
          exact this
      have h00 : ((t.put (k, x) n).del (k + 1, x)).get (k + 1, x) = none := by rw [g2]; simp
      obtain ⟨i1, i2⟩ := ih (k + 1) _ h' h00
      refine ⟨?_, ?_⟩
      · intro j
        cases j with
        | zero =>
          rw [i2 (k + 0, x) (Or.inr (by simp)), g2]
          have e1 : ¬ ((k + 0, x) : Key) = (k + 1, x) := by simp
          simp [e1, h1]
        | succ j =>
          rw [show k + (j + 1) = k + 1 + j by omega, i1 j, g2]
          have e1 : ¬ ((k + 1 + j + 1, x) : Key) = (k + 1, x) := by intro e; injection e with e _; omega
          have e2 : ¬ ((k + 1 + j + 1, x) : Key) = (k, x) := by intro e; injection e with e _; omega
          simp [e1, e2]
      · intro key hk
        rw [i2 key (by rcases hk with h2 | h2; exact Or.inl h2; exact Or.inr (by omega)), g2]
        have e1 : ¬ key = (k + 1, x) := by intro e; subst e; simp at hk <;> omega
        have e2 : ¬ key = (k, x) := by intro e; subst e; simp at hk
        simp [e1, e2]

/-- **shadow then unshadow is the identity** on a contiguous chain of any length: redeclaring a
    name in an inner block and closing that block restores every binding of every name -/
theorem shadow_unshadow_id (x : String) (fuel fuel' : Nat) (t : Tbl)
    (h : Chain t x 0 fuel) (hf : fuel < fuel') (n : Nat) (key : Key) :
    (unshadowT fuel' 0 x ((((shadowT fuel 0 x t).put (0, x) n)).del (0, x))).get key = t.get key := by
  obtain ⟨s1, s2, s3⟩ := shadow_shifts x fuel 0 t h
  -- the table between the two operations: level 0 free, level j+1 = old level j
  let t1 := ((shadowT fuel 0 x t).put (0, x) n).del (0, x)
  have g : ∀ key : Key, t1.get key = if key = (0, x) then none else (shadowT fuel 0 x t).get key := by
    intro key
    show (((shadowT fuel 0 x t).put (0, x) n).del (0, x)).get key = _
    rw [get_del, get_put]
    by_cases e : key = (0, x) <;> simp [e]
  have hc : Chain t1 x (0 + 1) fuel' := by
    constructor
    · intro j hj
      rw [g] at hj
      have e1 : ¬ ((0 + 1 + j, x) : Key) = (0, x) := by simp
      simp only [e1, if_false] at hj
      have := s2 j
      simp only [Nat.zero_add] at this
      rw [show 0 + 1 + j = j + 1 by omega, this] at hj
      have := h.short j (by simpa using hj)
      omega
    · intro j hj
      rw [g] at hj ⊢
      have e1 : ¬ ((0 + 1 + j + 1, x) : Key) = (0, x) := by simp
      have e2 : ¬ ((0 + 1 + j, x) : Key) = (0, x) := by simp
      simp only [e1, e2, if_false] at hj ⊢
      have a1 := s2 (j + 1)
      have a2 := s2 j
      simp only [Nat.zero_add] at a1 a2
      rw [show 0 + 1 + j + 1 = j + 1 + 1 by omega, a1] at hj
      rw [show 0 + 1 + j = j + 1 by omega, a2]
      have := h.contig j (by simpa using hj)
      simpa using this
  have h0 : t1.get (0, x) = none := by rw [g]; simp
  obtain ⟨u1, u2⟩ := unshadow_unshifts x fuel' 0 t1 hc h0
  by_cases hk : key.2 = x
  · obtain ⟨j, nm⟩ := key
    simp only at hk
    subst hk
    have := u1 j
    simp only [Nat.zero_add] at this
    rw [this, g]
    have e1 : ¬ ((j + 1, nm) : Key) = (0, nm) := by simp
    simp only [e1, if_false]
    have := s2 j
    simp only [Nat.zero_add] at this
    exact this
  · rw [u2 key (Or.inl hk), g]
    have e1 : ¬ key = (0, x) := by intro e; subst e; simp at hk
    simp only [e1, if_false]
    exact s3 key (Or.inl hk)

/-! ### what a declaration does -/

/-- `Index` of a name that is not visible allocates a **fresh** slot — the next index, never a
    slot that was used before, because the slot count never shrinks -/
theorem index_fresh (l : L) (x : String) (h : l.get (0, x) = none) :
    (l.index x).2 = l.i2k.length ∧ (l.index x).1.i2k.length = l.i2k.length + 1 ∧
    (l.index x).1.get (0, x) = some l.i2k.length := by
  have e : l.index x = ({ tbl := l.tbl.put (0, x) l.i2k.length, i2k := l.i2k ++ [x] }, l.i2k.length) := by
    unfold L.index; simp [h]
  rw [e]
  refine ⟨rfl, by simp, ?_⟩
  show (l.tbl.put (0, x) l.i2k.length).get (0, x) = _
  rw [get_put]; simp

/-- `Index` of a visible name returns its slot and changes nothing -/
theorem index_visible (l : L) (x : String) (n : Nat) (h : l.get (0, x) = some n) :
    l.index x = (l, n) := by
  unfold L.index; simp [h]

/-- dropping never shrinks the slot count -/
theorem drop_length (l : L) : ∀ t, (l.drop t).i2k.length = l.i2k.length := by
  intro t
  induction t with
  | zero => rfl
  | succ t ih =>
    unfold L.drop
    simp only
    split
    · exact ih
    · split
      · exact ih
      · simp [ih]

/-! ### non-vacuity: a chain of length two satisfies the hypotheses -/

example : Chain ((({} : Tbl).put (0, "x") 5).put (1, "x") 3) "x" 0 3 := by
  constructor
  · intro j hj
    rw [get_put, get_put] at hj
    match j with
    | 0 => omega
    | 1 => omega
    | j + 2 => simp [Tbl.get] at hj
  · intro j hj
    rw [get_put, get_put] at hj ⊢
    match j with
    | 0 => simp
    | j + 1 => simp [Tbl.get] at hj

end Goat.Props.C08

#print axioms Goat.Props.C08.shadow_shifts
#print axioms Goat.Props.C08.unshadow_unshifts
#print axioms Goat.Props.C08.shadow_unshadow_id
#print axioms Goat.Props.C08.index_fresh
#print axioms Goat.Props.C08.index_visible
#print axioms Goat.Props.C08.drop_length
