import Goat.Model.Scope
import Goat.Lemmas.Resolve
/-!
# C08 — names resolve by Go's lexical block scoping

The symbol table keeps, for a name `x`, the chain `x ↦ s₀, ~x ↦ s₁, ~~x ↦ s₂, …` of the slots of
the bindings of `x` that are currently in scope, innermost first. The theorems below are about
that chain, for **every** chain length (every nesting depth):

* `shadow_shifts` — `shadow` moves every entry of the chain one level out and frees level 0
  (and touches no other name);
* `unshadow_unshifts` — `unshadow` moves every entry one level in, **leaving no `~` entry
  behind** (this is false of the code before the repair of `unshadow`; the suite's depth-1
  shapes cannot see it);
* `declare_outer` / `declare_same_scope` / `index_visible` — what a declaration does;
* `drop_one_restores` — closing one slot restores exactly what its declaration shadowed;
* `redeclare_then_close` — a declaration that shadows, followed by the close of its slot, is the
  identity on the whole table, at every depth: the outer binding and its slot are visible again.

Second half of this file — the full statement: `scope_refines`. A specification machine keeps a
stack of frames (name ↦ slot per block) and a slot counter; the relation `Rel` says that for every
name the table's chain `x, ~x, ~~x, …` is exactly the list of `x`'s slots in the frames, innermost
first, that `indexToKey` marks exactly the live slots, and that the scope marks delimit the frames'
slot ranges. `begin_rel`, `declare_rel` (reuse in the same block / shadow an outer binding / fresh
name), `index_rel` and `end_rel` (through `drop_abs`, the induction over `Drop`'s loop, newest
slot first, dead slots of already closed inner blocks skipped) preserve it, so after **every**
history each declaration returned the same slot in both machines and every name resolves by Go's
rule: the innermost enclosing block that declares it (`scope_refines`, `scope_refines_resolve`).

What remains outside: *which* statements open blocks and declare names (the compiler's calls of
Begin / Shadow / End: for, range, if, switch, function bodies) is compared with Go itself by the
scoping generator.
-/
namespace Goat.Props.C08
open Goat.Scope

theorem get_put (t : Tbl) (k k' : Key) (n : Nat) :
    (t.put k n).get k' = if k' = k then some n else t.get k' := by
  unfold Tbl.put Tbl.get
  rw [Std.HashMap.getElem?_insert]
  by_cases h : k = k'
  · subst h; simp
  · have : ¬ k' = k := fun e => h e.symm
    simp [h, this]

theorem get_del (t : Tbl) (k k' : Key) :
    (t.del k).get k' = if k' = k then none else t.get k' := by
  unfold Tbl.del Tbl.get
  rw [Std.HashMap.getElem?_erase]
  by_cases h : k = k'
  · subst h; simp
  · have : ¬ k' = k := fun e => h e.symm
    simp [h, this]

/-- the chain of `x` from level `k` on is contiguous and shorter than `fuel` -/
structure Chain (t : Tbl) (x : String) (k fuel : Nat) : Prop where
  short : ∀ j, (t.get (k + j, x)).isSome → j < fuel
  contig : ∀ j, (t.get (k + j + 1, x)).isSome → (t.get (k + j, x)).isSome

private theorem chain_none {t : Tbl} {x : String} {k fuel : Nat} (h : Chain t x k fuel)
    (h0 : t.get (k, x) = none) : ∀ j, t.get (k + j, x) = none := by
  intro j
  induction j with
  | zero => simpa using h0
  | succ j ih =>
    cases hj : t.get (k + (j + 1), x) with
    | none => rfl
    | some n =>
      have := h.contig j (by rw [show k + j + 1 = k + (j + 1) by omega, hj]; rfl)
      rw [ih] at this
      cases this

/-- **shadow shifts the chain out by one level**, whatever its length, and changes nothing else -/
theorem shadow_shifts (x : String) : ∀ (fuel k : Nat) (t : Tbl), Chain t x k fuel →
    (shadowT fuel k x t).get (k, x) = none ∧
    (∀ j, (shadowT fuel k x t).get (k + j + 1, x) = t.get (k + j, x)) ∧
    (∀ key : Key, (key.2 ≠ x ∨ key.1 < k) → (shadowT fuel k x t).get key = t.get key) := by
  intro fuel
  induction fuel with
  | zero =>
    intro k t h
    have hn : ∀ j, t.get (k + j, x) = none := by
      intro j
      cases hj : t.get (k + j, x) with
      | none => rfl
      | some n => exact absurd (h.short j (by rw [hj]; rfl)) (by omega)
    refine ⟨by simp only [shadowT]; simpa using hn 0, fun j => ?_, fun _ _ => rfl⟩
    simp only [shadowT]
    rw [show k + j + 1 = k + (j + 1) by omega, hn, hn]
  | succ fuel ih =>
    intro k t h
    unfold shadowT
    cases h0 : t.get (k, x) with
    | none =>
      have hn := chain_none h h0
      refine ⟨h0, fun j => ?_, fun _ _ => rfl⟩
      simp only
      rw [show k + j + 1 = k + (j + 1) by omega, hn, hn]
    | some n =>
      simp only
      have h' : Chain t x (k + 1) fuel := by
        constructor
        · intro j hj
          have := h.short (j + 1) (by rw [show k + (j + 1) = k + 1 + j by omega]; exact hj)
          omega
        · intro j hj
          have := h.contig (j + 1) (by rw [show k + (j + 1) + 1 = k + 1 + j + 1 by omega]; exact hj)
          rw [show k + (j + 1) = k + 1 + j by omega] at this
          exact this
      obtain ⟨i1, i2, i3⟩ := ih (k + 1) t h'
      refine ⟨?_, ?_, ?_⟩
      · rw [get_del]; simp
      · intro j
        rw [get_del, get_put]
        cases j with
        | zero => simp [h0]
        | succ j =>
          have e1 : ¬ ((k + (j + 1) + 1, x) : Key) = (k, x) := by intro e; injection e with e _; omega
          have e2 : ¬ ((k + (j + 1) + 1, x) : Key) = (k + 1, x) := by intro e; injection e with e _; omega
          simp only [e1, e2, if_false]
          rw [show k + (j + 1) + 1 = k + 1 + j + 1 by omega, i2 j]
          rw [show k + 1 + j = k + (j + 1) by omega]
      · intro key hk
        rw [get_del, get_put]
        have e1 : ¬ key = (k, x) := by
          intro e; subst e; simp at hk
        have e2 : ¬ key = (k + 1, x) := by
          intro e; subst e; simp at hk <;> omega
        simp only [e1, e2, if_false]
        exact i3 key (by rcases hk with h1 | h1; exact Or.inl h1; exact Or.inr (by omega))

/-- **unshadow shifts the chain in by one level and leaves no stale `~` entry**: with level `k`
    free, every level above moves down by one (so the last level becomes free), at every depth -/
theorem unshadow_unshifts (x : String) : ∀ (fuel k : Nat) (t : Tbl), Chain t x (k + 1) fuel →
    t.get (k, x) = none →
    (∀ j, (unshadowT fuel k x t).get (k + j, x) = t.get (k + j + 1, x)) ∧
    (∀ key : Key, (key.2 ≠ x ∨ key.1 < k) → (unshadowT fuel k x t).get key = t.get key) := by
  intro fuel
  induction fuel with
  | zero =>
    intro k t h h0
    have hn : ∀ j, t.get (k + 1 + j, x) = none := by
      intro j
      cases hj : t.get (k + 1 + j, x) with
      | none => rfl
      | some n => exact absurd (h.short j (by rw [hj]; rfl)) (by omega)
    refine ⟨fun j => ?_, fun _ _ => rfl⟩
    simp only [unshadowT]
    cases j with
    | zero => rw [show k + 0 + 1 = k + 1 + 0 by omega, hn]; simpa using h0
    | succ j => rw [show k + (j + 1) = k + 1 + j by omega, hn, show k + 1 + j + 1 = k + 1 + (j + 1) by omega, hn]
  | succ fuel ih =>
    intro k t h h0
    unfold unshadowT
    cases h1 : t.get (k + 1, x) with
    | none =>
      have hn := chain_none h h1
      refine ⟨fun j => ?_, fun _ _ => rfl⟩
      simp only
      cases j with
      | zero => rw [show k + 0 + 1 = k + 1 + 0 by omega, hn]; simpa using h0
      | succ j => rw [show k + (j + 1) = k + 1 + j by omega, hn, show k + 1 + j + 1 = k + 1 + (j + 1) by omega, hn]
    | some n =>
      simp only
      -- the table after moving level k+1 to level k
      have g2 : ∀ key : Key, ((t.put (k, x) n).del (k + 1, x)).get key =
          if key = (k + 1, x) then none else if key = (k, x) then some n else t.get key := by
        intro key; rw [get_del, get_put]
      have h' : Chain ((t.put (k, x) n).del (k + 1, x)) x (k + 1 + 1) fuel := by
        constructor
        · intro j hj
          rw [g2] at hj
          have e1 : ¬ ((k + 1 + 1 + j, x) : Key) = (k + 1, x) := by intro e; injection e with e _; omega
          have e2 : ¬ ((k + 1 + 1 + j, x) : Key) = (k, x) := by intro e; injection e with e _; omega
          simp only [e1, e2, if_false] at hj
          have := h.short (j + 1) (by rw [show k + 1 + (j + 1) = k + 1 + 1 + j by omega]; exact hj)
          omega
        · intro j hj
          rw [g2] at hj ⊢
          have e1 : ¬ ((k + 1 + 1 + j + 1, x) : Key) = (k + 1, x) := by intro e; injection e with e _; omega
          have e2 : ¬ ((k + 1 + 1 + j + 1, x) : Key) = (k, x) := by intro e; injection e with e _; omega
          have e3 : ¬ ((k + 1 + 1 + j, x) : Key) = (k + 1, x) := by intro e; injection e with e _; omega
          have e4 : ¬ ((k + 1 + 1 + j, x) : Key) = (k, x) := by intro e; injection e with e _; omega
          simp only [e1, e2, e3, e4, if_false] at hj ⊢
          have := h.contig (j + 1) (by rw [show k + 1 + (j + 1) + 1 = k + 1 + 1 + j + 1 by omega]; exact hj)
          rw [show k + 1 + (j + 1) = k + 1 + 1 + j by omega] at this
          exact this
      have h00 : ((t.put (k, x) n).del (k + 1, x)).get (k + 1, x) = none := by rw [g2]; simp
      obtain ⟨i1, i2⟩ := ih (k + 1) _ h' h00
      refine ⟨?_, ?_⟩
      · intro j
        cases j with
        | zero =>
          rw [i2 (k + 0, x) (Or.inr (by simp)), g2]
          have e1 : ¬ ((k + 0, x) : Key) = (k + 1, x) := by simp
          simp [e1, h1]
        | succ j =>
          rw [show k + (j + 1) = k + 1 + j by omega, i1 j, g2]
          have e1 : ¬ ((k + 1 + j + 1, x) : Key) = (k + 1, x) := by intro e; injection e with e _; omega
          have e2 : ¬ ((k + 1 + j + 1, x) : Key) = (k, x) := by intro e; injection e with e _; omega
          simp [e1, e2]
      · intro key hk
        rw [i2 key (by rcases hk with h2 | h2; exact Or.inl h2; exact Or.inr (by omega)), g2]
        have e1 : ¬ key = (k + 1, x) := by intro e; subst e; simp at hk <;> omega
        have e2 : ¬ key = (k, x) := by intro e; subst e; simp at hk
        simp [e1, e2]

/-- **shadow then unshadow is the identity** on a contiguous chain of any length: redeclaring a
    name in an inner block and closing that block restores every binding of every name -/
theorem shadow_unshadow_id (x : String) (fuel fuel' : Nat) (t : Tbl)
    (h : Chain t x 0 fuel) (hf : fuel < fuel') (n : Nat) (key : Key) :
    (unshadowT fuel' 0 x ((((shadowT fuel 0 x t).put (0, x) n)).del (0, x))).get key = t.get key := by
  obtain ⟨s1, s2, s3⟩ := shadow_shifts x fuel 0 t h
  -- the table between the two operations: level 0 free, level j+1 = old level j
  let t1 := ((shadowT fuel 0 x t).put (0, x) n).del (0, x)
  have g : ∀ key : Key, t1.get key = if key = (0, x) then none else (shadowT fuel 0 x t).get key := by
    intro key
    show (((shadowT fuel 0 x t).put (0, x) n).del (0, x)).get key = _
    rw [get_del, get_put]
    by_cases e : key = (0, x) <;> simp [e]
  have hc : Chain t1 x (0 + 1) fuel' := by
    constructor
    · intro j hj
      rw [g] at hj
      have e1 : ¬ ((0 + 1 + j, x) : Key) = (0, x) := by simp
      simp only [e1, if_false] at hj
      have := s2 j
      simp only [Nat.zero_add] at this
      rw [show 0 + 1 + j = j + 1 by omega, this] at hj
      have := h.short j (by simpa using hj)
      omega
    · intro j hj
      rw [g] at hj ⊢
      have e1 : ¬ ((0 + 1 + j + 1, x) : Key) = (0, x) := by simp
      have e2 : ¬ ((0 + 1 + j, x) : Key) = (0, x) := by simp
      simp only [e1, e2, if_false] at hj ⊢
      have a1 := s2 (j + 1)
      have a2 := s2 j
      simp only [Nat.zero_add] at a1 a2
      rw [show 0 + 1 + j + 1 = j + 1 + 1 by omega, a1] at hj
      rw [show 0 + 1 + j = j + 1 by omega, a2]
      have := h.contig j (by simpa using hj)
      simpa using this
  have h0 : t1.get (0, x) = none := by rw [g]; simp
  obtain ⟨u1, u2⟩ := unshadow_unshifts x fuel' 0 t1 hc h0
  by_cases hk : key.2 = x
  · obtain ⟨j, nm⟩ := key
    simp only at hk
    subst hk
    have := u1 j
    simp only [Nat.zero_add] at this
    rw [this, g]
    have e1 : ¬ ((j + 1, nm) : Key) = (0, nm) := by simp
    simp only [e1, if_false]
    have := s2 j
    simp only [Nat.zero_add] at this
    exact this
  · rw [u2 key (Or.inl hk), g]
    have e1 : ¬ key = (0, x) := by intro e; subst e; simp at hk
    simp only [e1, if_false]
    exact s3 key (Or.inl hk)

/-! ### what a declaration does -/

/-- `Index` of a name that is not visible allocates a **fresh** slot — the next index, never a
    slot that was used before, because the slot count never shrinks -/
theorem index_fresh (l : L) (x : String) (h : l.get (0, x) = none) :
    (l.index x).2 = l.i2k.length ∧ (l.index x).1.i2k.length = l.i2k.length + 1 ∧
    (l.index x).1.get (0, x) = some l.i2k.length := by
  have e : l.index x = ({ tbl := l.tbl.put (0, x) l.i2k.length, i2k := l.i2k ++ [x] }, l.i2k.length) := by
    unfold L.index; simp [h]
  rw [e]
  refine ⟨rfl, by simp, ?_⟩
  show (l.tbl.put (0, x) l.i2k.length).get (0, x) = _
  rw [get_put]; simp

/-- `Index` of a visible name returns its slot and changes nothing -/
theorem index_visible (l : L) (x : String) (n : Nat) (h : l.get (0, x) = some n) :
    l.index x = (l, n) := by
  unfold L.index; simp [h]

/-- dropping never shrinks the slot count -/
theorem drop_length (l : L) : ∀ t, (l.drop t).i2k.length = l.i2k.length := by
  intro t
  induction t with
  | zero => rfl
  | succ t ih =>
    unfold L.drop
    simp only
    split
    · exact ih
    · split
      · exact ih
      · simp [ih]

/-! ### non-vacuity: a chain of length two satisfies the hypotheses -/

example : Chain ((({} : Tbl).put (0, "x") 5).put (1, "x") 3) "x" 0 3 := by
  constructor
  · intro j hj
    rw [get_put, get_put] at hj
    match j with
    | 0 => omega
    | 1 => omega
    | j + 2 => simp [Tbl.get] at hj
  · intro j hj
    rw [get_put, get_put] at hj ⊢
    match j with
    | 0 => simp
    | j + 1 => simp [Tbl.get] at hj

/-! ## Refinement: the symbol table is a stack of frames -/

abbrev Frame := List (String × Nat)
abbrev Env := List Frame          -- innermost first

def fget (f : Frame) (x : String) : Option Nat := (f.find? (fun b => b.1 = x)).map (·.2)

/-- the slots bound to `x`, innermost first -/
def chainOf (e : Env) (x : String) : List Nat := e.filterMap (fun f => fget f x)

def allBinds (e : Env) : List (String × Nat) := e.flatten

structure AbsL (l : L) (e : Env) : Prop where
  tbl : ∀ (x : String) (j : Nat), l.get (j, x) = (chainOf e x)[j]?
  names : ∀ f ∈ e, (f.map (·.1)).Nodup
  slots : ((allBinds e).map (·.2)).Nodup
  live : ∀ (x : String) (n : Nat), (x, n) ∈ allBinds e → l.i2k[n]? = some x ∧ x ≠ ""
  dead : ∀ (n : Nat) (x : String), l.i2k[n]? = some x → x ≠ "" → (x, n) ∈ allBinds e

theorem fget_some_iff (f : Frame) (hn : (f.map (·.1)).Nodup) (x : String) (n : Nat) :
    fget f x = some n ↔ (x, n) ∈ f := by
  induction f with
  | nil => simp [fget]
  | cons b t ih =>
    simp only [List.map_cons, List.nodup_cons] at hn
    unfold fget
    by_cases hb : b.1 = x
    · simp only [List.find?_cons, hb, decide_true, Option.map_some, Option.some.injEq, List.mem_cons]
      constructor
      · intro h; left; rw [← hb, ← h]
      · rintro (h | h)
        · rw [← h]
        · exfalso; apply hn.1
          exact List.mem_map.mpr ⟨(x, n), h, by simp [hb]⟩
    · have hb' : ¬ (decide (b.1 = x) = true) := by simpa using hb
      simp only [List.find?_cons, hb, decide_false, List.mem_cons]
      have := ih hn.2
      unfold fget at this
      rw [this]
      constructor
      · intro h; exact Or.inr h
      · rintro (h | h)
        · exfalso; apply hb; rw [← h]
        · exact h

theorem fget_none_iff (f : Frame) (x : String) : fget f x = none ↔ ∀ n, (x, n) ∉ f := by
  induction f with
  | nil => simp [fget]
  | cons b t ih =>
    unfold fget at ih ⊢
    by_cases hb : b.1 = x
    · simp only [List.find?_cons, hb, decide_true, Option.map_some, reduceCtorEq, List.mem_cons, false_iff]
      intro h
      exact h b.2 (Or.inl (by rw [← hb]))
    · simp only [List.find?_cons, hb, decide_false, List.mem_cons]
      rw [ih]
      constructor
      · intro h n hn
        rcases hn with hn | hn
        · apply hb; rw [← hn]
        · exact h n hn
      · intro h n hn; exact h n (Or.inr hn)


theorem chainOf_cons (f : Frame) (rest : Env) (x : String) :
    chainOf (f :: rest) x = (match fget f x with | some n => n :: chainOf rest x | none => chainOf rest x) := by
  unfold chainOf
  rw [List.filterMap_cons]
  cases fget f x <;> rfl

theorem fget_mem (f : Frame) (x : String) (n : Nat) (h : fget f x = some n) : (x, n) ∈ f := by
  unfold fget at h
  cases hf : f.find? (fun b => b.1 = x) with
  | none => simp [hf] at h
  | some b =>
    simp only [hf, Option.map_some, Option.some.injEq] at h
    have hm := List.mem_of_find?_eq_some hf
    have hp := List.find?_some hf
    have : b = (x, n) := by
      cases b with
      | mk b1 b2 =>
        simp only [decide_eq_true_eq] at hp
        simp only at h
        rw [hp, h]
    rw [← this]; exact hm

theorem chain_sublist (e : Env) (x : String) : (chainOf e x).Sublist ((allBinds e).map (·.2)) := by
  induction e with
  | nil => simp [chainOf, allBinds]
  | cons f rest ih =>
    rw [chainOf_cons]
    have hsplit : (allBinds (f :: rest)).map (·.2) = f.map (·.2) ++ (allBinds rest).map (·.2) := by
      simp [allBinds]
    rw [hsplit]
    cases hf : fget f x with
    | none => exact ih.trans (List.sublist_append_right _ _)
    | some n =>
      have hm : n ∈ f.map (·.2) := List.mem_map.mpr ⟨(x, n), fget_mem f x n hf, rfl⟩
      have h1 : [n].Sublist (f.map (·.2)) := List.singleton_sublist.mpr hm
      exact (h1.append ih)

theorem chain_mem_binds (e : Env) (x : String) (n : Nat) (h : n ∈ chainOf e x) : (x, n) ∈ allBinds e := by
  induction e with
  | nil => simp [chainOf] at h
  | cons f rest ih =>
    rw [chainOf_cons] at h
    simp only [allBinds, List.flatten_cons, List.mem_append]
    cases hf : fget f x with
    | none => rw [hf] at h; exact Or.inr (ih h)
    | some m =>
      rw [hf] at h
      rcases List.mem_cons.mp h with rfl | h'
      · exact Or.inl (fget_mem f x n hf)
      · exact Or.inr (ih h')

theorem slot_lt_len {l : L} {e : Env} (h : AbsL l e) (x : String) (n : Nat) (hm : (x, n) ∈ allBinds e) :
    n < l.i2k.length := by
  have := (h.live x n hm).1
  exact (List.getElem?_eq_some_iff.mp this).1

theorem chain_short {l : L} {e : Env} (h : AbsL l e) (x : String) : (chainOf e x).length ≤ l.i2k.length := by
  have hnd : (chainOf e x).Nodup := (chain_sublist e x).nodup h.slots
  have hsub : chainOf e x ⊆ List.range l.i2k.length := by
    intro n hn
    exact List.mem_range.mpr (slot_lt_len h x n (chain_mem_binds e x n hn))
  simpa using hnd.length_le_of_subset hsub

theorem abs_chain {l : L} {e : Env} (h : AbsL l e) (x : String) (k : Nat) :
    Chain l.tbl x k (l.i2k.length + 1) := by
  have hs := chain_short h x
  constructor
  · intro j hj
    have := h.tbl x (k + j)
    unfold L.get at this
    rw [this] at hj
    have : k + j < (chainOf e x).length := by
      cases hc : (chainOf e x)[k + j]? with
      | none => simp [hc] at hj
      | some _ => exact (List.getElem?_eq_some_iff.mp hc).1
    omega
  · intro j hj
    have h1 := h.tbl x (k + j + 1)
    have h2 := h.tbl x (k + j)
    unfold L.get at h1 h2
    rw [h1] at hj
    rw [h2]
    have : k + j + 1 < (chainOf e x).length := by
      cases hc : (chainOf e x)[k + j + 1]? with
      | none => simp [hc] at hj
      | some _ => exact (List.getElem?_eq_some_iff.mp hc).1
    rw [List.getElem?_eq_getElem (by omega)]
    rfl


theorem shadow_eq (l : L) (x : String) (h1 : (shadowT (l.i2k.length + 1) 0 x l.tbl).get (0, x) = none) :
    l.shadow x = ({ tbl := (shadowT (l.i2k.length + 1) 0 x l.tbl).put (0, x) l.i2k.length, i2k := l.i2k ++ [x] },
      l.i2k.length) := by
  unfold L.shadow L.index L.get
  simp [h1]

/-- **shadow_abs.** Declaring `x` (not bound in the current frame) binds it to a fresh slot in the
    current frame: every older binding of `x` moves one level out, no other name is touched. -/
theorem shadow_abs {l : L} {f : Frame} {rest : Env} (h : AbsL l (f :: rest)) (x : String)
    (hf : fget f x = none) (hx : x ≠ "") :
    (l.shadow x).2 = l.i2k.length ∧ AbsL (l.shadow x).1 (((x, l.i2k.length) :: f) :: rest) := by
  obtain ⟨s1, s2, s3⟩ := shadow_shifts x (l.i2k.length + 1) 0 l.tbl (abs_chain h x 0)
  rw [shadow_eq l x s1]
  refine ⟨rfl, ?_⟩
  have hnotin : ∀ n, (x, n) ∉ f := (fget_none_iff f x).mp hf
  have hold : chainOf (f :: rest) x = chainOf rest x := by rw [chainOf_cons, hf]
  have hfg : fget ((x, l.i2k.length) :: f) x = some l.i2k.length := by simp [fget]
  have hfg' : ∀ y, y ≠ x → fget ((x, l.i2k.length) :: f) y = fget f y := by
    intro y hy
    have : ¬ (x = y) := fun e => hy e.symm
    simp [fget, List.find?_cons, this]
  constructor
  · -- tbl
    intro y j
    show ((shadowT (l.i2k.length + 1) 0 x l.tbl).put (0, x) l.i2k.length).get (j, y) = _
    rw [get_put]
    by_cases hy : y = x
    · subst hy
      rw [chainOf_cons, hfg]
      cases j with
      | zero => simp
      | succ j =>
        have : ¬ ((j + 1, y) : Key) = (0, y) := by simp
        simp only [this, if_false, List.getElem?_cons_succ]
        have := s2 j
        simp only [Nat.zero_add] at this
        rw [this]
        have ht := h.tbl y j
        unfold L.get at ht
        rw [ht, hold]
    · have hne : ¬ ((j, y) : Key) = (0, x) := by
        intro e; exact hy (by simpa using (Prod.mk.inj e).2)
      simp only [hne, if_false]
      rw [s3 (j, y) (Or.inl hy)]
      have ht := h.tbl y j
      unfold L.get at ht
      rw [ht, chainOf_cons, chainOf_cons, hfg' y hy]
  · -- names
    intro g hg
    rcases List.mem_cons.mp hg with rfl | hg'
    · simp only [List.map_cons, List.nodup_cons]
      refine ⟨?_, h.names f (by simp)⟩
      intro hm
      obtain ⟨b, hb, hbx⟩ := List.mem_map.mp hm
      exact hnotin b.2 (by rw [← hbx]; exact hb)
    · exact h.names g (by simp [hg'])
  · -- slots
    have : (allBinds (((x, l.i2k.length) :: f) :: rest)).map (·.2) =
        l.i2k.length :: (allBinds (f :: rest)).map (·.2) := by simp [allBinds]
    rw [this, List.nodup_cons]
    refine ⟨?_, h.slots⟩
    intro hm
    obtain ⟨b, hb, hbn⟩ := List.mem_map.mp hm
    have := slot_lt_len h b.1 b.2 hb
    omega
  · -- live
    intro y n hm
    have hm' : (y, n) = (x, l.i2k.length) ∨ (y, n) ∈ allBinds (f :: rest) := by
      simpa [allBinds] using hm
    rcases hm' with e | hm'
    · cases e
      exact ⟨by simp, hx⟩
    · obtain ⟨h1, h2⟩ := h.live y n hm'
      have hlt : n < l.i2k.length := (List.getElem?_eq_some_iff.mp h1).1
      exact ⟨by rw [List.getElem?_append_left hlt]; exact h1, h2⟩
  · -- dead
    intro n y hy hne
    have hsplit : allBinds (((x, l.i2k.length) :: f) :: rest) = (x, l.i2k.length) :: allBinds (f :: rest) := by
      simp [allBinds]
    rw [hsplit]
    by_cases hlt : n < l.i2k.length
    · rw [List.getElem?_append_left hlt] at hy
      exact List.mem_cons_of_mem _ (h.dead n y hy hne)
    · have hlen := (List.getElem?_eq_some_iff.mp hy).1
      simp only [List.length_append, List.length_singleton] at hlen
      have hn : n = l.i2k.length := by omega
      subst hn
      simp at hy
      subst hy
      exact List.mem_cons_self


/-! ### closing a scope -/

def fcut (f : Frame) (bound : Nat) : Frame := f.filter (fun b => b.2 < bound)
def fdel (f : Frame) (n : Nat) : Frame := f.filter (fun b => b.2 ≠ n)

theorem fcut_step (f : Frame) (n : Nat) : fdel (fcut f (n + 1)) n = fcut f n := by
  unfold fdel fcut
  rw [List.filter_filter]
  apply List.filter_congr
  intro b _
  by_cases h1 : b.2 < n
  · have h2 : b.2 < n + 1 := by omega
    have h3 : b.2 ≠ n := by omega
    simp [h1, h2, h3]
  · by_cases h3 : b.2 = n
    · simp [h3]
    · have h2 : ¬ b.2 < n + 1 := by omega
      simp [h1, h2]

theorem fcut_all (f : Frame) (bound : Nat) (h : ∀ b ∈ f, b.2 < bound) : fcut f bound = f := by
  unfold fcut
  exact List.filter_eq_self.mpr (fun b hb => by simpa using h b hb)

theorem fcut_none (f : Frame) (bound : Nat) (h : ∀ b ∈ f, bound ≤ b.2) : fcut f bound = [] := by
  unfold fcut
  exact List.filter_eq_nil_iff.mpr (fun b hb => by have := h b hb; simp; omega)

theorem fdel_id (f : Frame) (n : Nat) (h : ∀ b ∈ f, b.2 ≠ n) : fdel f n = f := by
  unfold fdel
  exact List.filter_eq_self.mpr (fun b hb => by simpa using h b hb)

theorem fget_fdel_other (g : Frame) (x y : String) (n : Nat) (hy : y ≠ x)
    (honly : ∀ b ∈ g, b.2 = n → b.1 = x) : fget (fdel g n) y = fget g y := by
  induction g with
  | nil => rfl
  | cons b t ih =>
    have iht := ih (fun c hc => honly c (List.mem_cons_of_mem _ hc))
    unfold fdel fget at iht ⊢
    by_cases hb : b.2 = n
    · have hbx : b.1 = x := honly b List.mem_cons_self hb
      have hby : ¬ b.1 = y := by rw [hbx]; exact fun e => hy e.symm
      simp [List.filter_cons, hb, List.find?_cons, hby]
      simpa using iht
    · by_cases hby : b.1 = y
      · simp [List.filter_cons, hb, List.find?_cons, hby]
      · simp [List.filter_cons, hb, List.find?_cons, hby]
        simpa using iht


def dropStep (l' : L) (n : Nat) : L :=
  match l'.i2k[n]? with
  | none => l'
  | some key =>
    if key = "" then l'
    else { tbl := unshadowT (l'.i2k.length + 1) 0 key (l'.tbl.del (0, key)), i2k := l'.i2k.set n "" }

theorem drop_succ (l : L) (t : Nat) : l.drop (t + 1) = dropStep (l.drop t) (l.i2k.length - (t + 1)) := rfl

theorem sublist_allBinds (g g' : Frame) (rest : Env) (h : g'.Sublist g) :
    (allBinds (g' :: rest)).Sublist (allBinds (g :: rest)) := by
  simp only [allBinds, List.flatten_cons]
  exact h.append (List.Sublist.refl _)

/-- **drop_step.** Closing slot `n` (of the innermost frame `g`): the binding with that slot, if it
    is live, is removed and every outer binding of its name moves one level in. -/
theorem drop_step {l' : L} {g : Frame} {rest : Env} (h : AbsL l' (g :: rest)) (n : Nat)
    (hn : n < l'.i2k.length) (hrest : ∀ b ∈ allBinds rest, b.2 ≠ n) :
    AbsL (dropStep l' n) (fdel g n :: rest) := by
  obtain ⟨key, hkey⟩ : ∃ key, l'.i2k[n]? = some key := ⟨l'.i2k[n], List.getElem?_eq_getElem hn⟩
  unfold dropStep
  simp only [hkey]
  by_cases hk : key = ""
  · -- a dead slot: nothing bound to it
    simp only [hk, if_true]
    have hnone : ∀ b ∈ g, b.2 ≠ n := by
      intro b hb e
      have hm : (b.1, n) ∈ allBinds (g :: rest) := by
        simp only [allBinds, List.flatten_cons, List.mem_append]
        left; rw [← e]; exact hb
      have := h.live b.1 n hm
      rw [hkey] at this
      exact this.2 (by rw [← hk]; exact (Option.some.inj this.1).symm)
    rw [fdel_id g n hnone]
    exact h
  · simp only [hk, if_false]
    -- the live binding (key, n) sits in g
    have hmem : (key, n) ∈ allBinds (g :: rest) := h.dead n key hkey hk
    have hing : (key, n) ∈ g := by
      simp only [allBinds, List.flatten_cons, List.mem_append] at hmem
      rcases hmem with hm | hm
      · exact hm
      · exact absurd rfl (hrest (key, n) hm)
    have hgn := h.names g (by simp)
    have hfg : fget g key = some n := (fget_some_iff g hgn key n).mpr hing
    have hchain : chainOf (g :: rest) key = n :: chainOf rest key := by rw [chainOf_cons, hfg]
    -- in g, slot n belongs to key only
    have honly : ∀ b ∈ g, b.2 = n → b.1 = key := by
      intro b hb e
      have h1 : (b.1, b.2) ∈ allBinds (g :: rest) := by
        simp only [allBinds, List.flatten_cons, List.mem_append]; exact Or.inl hb
      have := (h.live b.1 b.2 h1).1
      rw [e, hkey] at this
      exact (Option.some.inj this).symm
    have hfg' : fget (fdel g n) key = none := by
      rw [fget_none_iff]
      intro m hm
      have hm' : (key, m) ∈ g ∧ m ≠ n := by
        unfold fdel at hm
        have := List.mem_filter.mp hm
        exact ⟨this.1, by simpa using this.2⟩
      have := (fget_some_iff g hgn key m).mpr hm'.1
      rw [hfg] at this
      exact hm'.2 (Option.some.inj this).symm
    -- the table after deleting level 0 of key
    let t1 := l'.tbl.del (0, key)
    have g1 : ∀ k : Key, t1.get k = if k = (0, key) then none else l'.tbl.get k := fun k => get_del l'.tbl (0, key) k
    have hc1 : Chain t1 key (0 + 1) (l'.i2k.length + 1) := by
      have hc := abs_chain h key 1
      constructor
      · intro j hj
        have e : ¬ ((0 + 1 + j, key) : Key) = (0, key) := by simp
        rw [g1, if_neg e] at hj
        exact hc.short j (by simpa using hj)
      · intro j hj
        have e1 : ¬ ((0 + 1 + j + 1, key) : Key) = (0, key) := by simp
        have e2 : ¬ ((0 + 1 + j, key) : Key) = (0, key) := by simp
        rw [g1, if_neg e1] at hj
        rw [g1, if_neg e2]
        exact hc.contig j (by simpa using hj)
    have h0 : t1.get (0, key) = none := by rw [g1]; simp
    obtain ⟨u1, u2⟩ := unshadow_unshifts key (l'.i2k.length + 1) 0 t1 hc1 h0
    constructor
    · -- tbl
      intro y j
      show (unshadowT (l'.i2k.length + 1) 0 key t1).get (j, y) = _
      by_cases hy : y = key
      · subst hy
        have := u1 j
        simp only [Nat.zero_add] at this
        rw [this, g1]
        have e : ¬ ((j + 1, y) : Key) = (0, y) := by simp
        rw [if_neg e]
        have ht := h.tbl y (j + 1)
        unfold L.get at ht
        rw [ht, hchain, chainOf_cons, hfg']
        simp
      · rw [u2 (j, y) (Or.inl hy), g1]
        have e : ¬ ((j, y) : Key) = (0, key) := by
          intro e'; exact hy (by simpa using (Prod.mk.inj e').2)
        rw [if_neg e]
        have ht := h.tbl y j
        unfold L.get at ht
        rw [ht, chainOf_cons, chainOf_cons, fget_fdel_other g key y n hy honly]
    · -- names
      intro f hf
      rcases List.mem_cons.mp hf with rfl | hf'
      · exact (List.Sublist.map _ List.filter_sublist).nodup hgn
      · exact h.names f (by simp [hf'])
    · -- slots
      exact ((sublist_allBinds g (fdel g n) rest List.filter_sublist).map _).nodup h.slots
    · -- live
      intro y m hm
      have hold : (y, m) ∈ allBinds (g :: rest) := (sublist_allBinds g (fdel g n) rest List.filter_sublist).subset hm
      have hmn : m ≠ n := by
        simp only [allBinds, List.flatten_cons, List.mem_append] at hm
        rcases hm with hm | hm
        · unfold fdel at hm
          simpa using (List.mem_filter.mp hm).2
        · exact hrest (y, m) hm
      obtain ⟨h1, h2⟩ := h.live y m hold
      exact ⟨by rw [List.getElem?_set_ne (Ne.symm hmn)]; exact h1, h2⟩
    · -- dead
      intro m y hy hne
      have hmn : m ≠ n := by
        intro e; subst e
        rw [List.getElem?_set_self hn] at hy
        exact hne (Option.some.inj hy).symm
      rw [List.getElem?_set_ne (Ne.symm hmn)] at hy
      have hold := h.dead m y hy hne
      simp only [allBinds, List.flatten_cons, List.mem_append] at hold ⊢
      rcases hold with hm | hm
      · left
        unfold fdel
        exact List.mem_filter.mpr ⟨hm, by simpa using hmn⟩
      · exact Or.inr hm


theorem drop_abs {l : L} {f : Frame} {rest : Env} (h : AbsL l (f :: rest)) (mark : Nat)
    (hm : mark ≤ l.i2k.length) (hrest : ∀ b ∈ allBinds rest, b.2 < mark) :
    ∀ t, t ≤ l.i2k.length - mark → AbsL (l.drop t) (fcut f (l.i2k.length - t) :: rest) := by
  intro t
  induction t with
  | zero =>
    intro _
    have : fcut f (l.i2k.length - 0) = f := by
      apply fcut_all
      intro b hb
      have hmem : (b.1, b.2) ∈ allBinds (f :: rest) := by
        simp only [allBinds, List.flatten_cons, List.mem_append]; exact Or.inl hb
      simpa using slot_lt_len h b.1 b.2 hmem
    rw [this]; exact h
  | succ t ih =>
    intro ht
    have ih' := ih (by omega)
    rw [drop_succ]
    have hlen : (l.drop t).i2k.length = l.i2k.length := drop_length l t
    have hstep := drop_step ih' (l.i2k.length - (t + 1)) (by rw [hlen]; omega)
      (fun b hb => by have := hrest b hb; omega)
    have e : l.i2k.length - t = (l.i2k.length - (t + 1)) + 1 := by omega
    rw [e, fcut_step] at hstep
    exact hstep

/-! ### the compiler's view: scope marks -/

/-- the scope marks delimit the frames' slot ranges: frame `i` owns the live slots in
    `[mark i, mark (i-1))`, the innermost up to `top` -/
def Marks : List Nat → Env → Nat → Prop
  | [], [f], top => ∀ b ∈ f, b.2 < top
  | m :: ms, f :: e', top => m ≤ top ∧ (∀ b ∈ f, m ≤ b.2 ∧ b.2 < top) ∧ Marks ms e' m
  | _, _, _ => False

theorem marks_lt : ∀ (ms : List Nat) (e : Env) (top : Nat), Marks ms e top → ∀ b ∈ allBinds e, b.2 < top := by
  intro ms
  induction ms with
  | nil =>
    intro e top h b hb
    match e, h with
    | [f], h => simpa [allBinds] using h b (by simpa [allBinds] using hb)
  | cons m ms ih =>
    intro e top h b hb
    match e, h with
    | f :: e', ⟨h1, h2, h3⟩ =>
      simp only [allBinds, List.flatten_cons, List.mem_append] at hb
      rcases hb with hb | hb
      · exact (h2 b hb).2
      · have := ih e' m h3 b hb
        omega

theorem marks_mono : ∀ (ms : List Nat) (e : Env) (top top' : Nat), Marks ms e top → top ≤ top' → Marks ms e top' := by
  intro ms e top top' h hle
  match ms, e, h with
  | [], [f], h => exact fun b hb => Nat.lt_of_lt_of_le (h b hb) hle
  | m :: ms, f :: e', ⟨h1, h2, h3⟩ =>
    exact ⟨Nat.le_trans h1 hle, fun b hb => ⟨(h2 b hb).1, Nat.lt_of_lt_of_le (h2 b hb).2 hle⟩, h3⟩

structure Abs (c : C) (e : Env) : Prop where
  tab : AbsL c.l e
  marks : Marks c.scope e c.l.i2k.length

theorem chain_nil_frame (e : Env) (x : String) : chainOf ([] :: e) x = chainOf e x := by
  rw [chainOf_cons]; rfl

theorem absL_push {l : L} {e : Env} (h : AbsL l e) : AbsL l ([] :: e) := by
  refine ⟨fun x j => by rw [chain_nil_frame]; exact h.tbl x j, ?_, ?_, ?_, ?_⟩
  · intro f hf
    rcases List.mem_cons.mp hf with rfl | hf'
    · simp
    · exact h.names f hf'
  · simpa [allBinds] using h.slots
  · intro x n hm; exact h.live x n (by simpa [allBinds] using hm)
  · intro n x hx hne; simpa [allBinds] using h.dead n x hx hne

theorem absL_pop {l : L} {e : Env} (h : AbsL l ([] :: e)) : AbsL l e := by
  refine ⟨fun x j => by rw [← chain_nil_frame]; exact h.tbl x j, fun f hf => h.names f (by simp [hf]), ?_, ?_, ?_⟩
  · simpa [allBinds] using h.slots
  · intro x n hm; exact h.live x n (by simpa [allBinds] using hm)
  · intro n x hx hne; simpa [allBinds] using h.dead n x hx hne

/-- **begin_abs** -/
theorem begin_abs {c : C} {e : Env} (h : Abs c e) : Abs c.begin ([] :: e) := by
  refine ⟨absL_push h.tab, ?_⟩
  show Marks (c.l.i2k.length :: c.scope) ([] :: e) c.l.i2k.length
  exact ⟨Nat.le_refl _, fun b hb => by simp at hb, h.marks⟩

/-- **end_abs** -/
theorem end_abs {c : C} {f : Frame} {e' : Env} {mark : Nat} {ms : List Nat}
    (h : Abs c (f :: e')) (hs : c.scope = mark :: ms) : Abs c.end e' := by
  have hm := h.marks
  rw [hs] at hm
  obtain ⟨h1, h2, h3⟩ := hm
  have hrest := marks_lt ms e' mark h3
  have hd := drop_abs h.tab mark h1 hrest (c.l.i2k.length - mark) (Nat.le_refl _)
  have hcut : fcut f (c.l.i2k.length - (c.l.i2k.length - mark)) = [] := by
    apply fcut_none
    intro b hb
    have := (h2 b hb).1
    omega
  rw [hcut] at hd
  have hend : c.end = { l := c.l.drop (c.l.i2k.length - mark), scope := ms } := by
    unfold C.end; rw [hs]
  rw [hend]
  refine ⟨absL_pop hd, ?_⟩
  show Marks ms e' (c.l.drop (c.l.i2k.length - mark)).i2k.length
  rw [drop_length]
  exact marks_mono ms e' mark _ h3 h1


/-! ### the specification: a stack of frames with a slot counter -/

structure SEnv where
  e : Env := [[]]
  next : Nat := 0

def SEnv.begin (s : SEnv) : SEnv := { s with e := [] :: s.e }

def SEnv.bind (s : SEnv) (x : String) : SEnv × Nat :=
  match s.e with
  | f :: rest => ({ e := ((x, s.next) :: f) :: rest, next := s.next + 1 }, s.next)
  | [] => (s, 0)

/-- `x := …` / `var x`: reuse the slot if `x` is already declared in *this* block, else a new
    variable in this block (which hides any outer `x`) -/
def SEnv.declare (s : SEnv) (x : String) : SEnv × Nat :=
  match s.e with
  | f :: _ => (match fget f x with | some n => (s, n) | none => s.bind x)
  | [] => (s, 0)

/-- `Locals.Index`: the visible variable of that name, or a new one in this block -/
def SEnv.index (s : SEnv) (x : String) : SEnv × Nat :=
  match (chainOf s.e x).head? with
  | some n => (s, n)
  | none => s.bind x

def SEnv.end (s : SEnv) : SEnv :=
  match s.e with
  | _ :: g :: rest => { s with e := g :: rest }
  | _ => s

/-- Go's rule: the innermost enclosing block that declares the name -/
def SEnv.resolve (s : SEnv) (x : String) : Option Nat := (chainOf s.e x).head?

structure Rel (c : C) (s : SEnv) : Prop where
  abs : Abs c s.e
  next : s.next = c.l.i2k.length

theorem resolve_eq {c : C} {s : SEnv} (h : Rel c s) (x : String) : c.resolve x = s.resolve x := by
  unfold C.resolve SEnv.resolve
  rw [h.abs.tab.tbl x 0]
  cases chainOf s.e x <;> rfl

theorem shadow_eq_index (l : L) (x : String) (h : l.get (0, x) = none) : l.shadow x = l.index x := by
  unfold L.shadow
  have : shadowT (l.i2k.length + 1) 0 x l.tbl = l.tbl := by
    unfold shadowT
    unfold L.get at h
    simp [h]
  rw [this]

theorem marks_bind {ms : List Nat} {f : Frame} {rest : Env} {top : Nat} (x : String)
    (h : Marks ms (f :: rest) top) : Marks ms (((x, top) :: f) :: rest) (top + 1) := by
  match ms, rest, h with
  | [], [], h =>
    intro b hb
    rcases List.mem_cons.mp hb with rfl | hb'
    · exact Nat.lt_succ_self _
    · exact Nat.lt_succ_of_lt (h b hb')
  | m :: ms, rest, ⟨h1, h2, h3⟩ =>
    refine ⟨Nat.le_succ_of_le h1, ?_, h3⟩
    intro b hb
    rcases List.mem_cons.mp hb with rfl | hb'
    · exact ⟨h1, Nat.lt_succ_self _⟩
    · exact ⟨(h2 b hb').1, Nat.lt_succ_of_lt (h2 b hb').2⟩

/-- binding a name that the current frame does not declare -/
theorem bind_rel {c : C} {s : SEnv} (h : Rel c s) (x : String) (hx : x ≠ "") (f : Frame) (rest : Env)
    (he : s.e = f :: rest) (hf : fget f x = none) :
    Rel { c with l := (c.l.shadow x).1 } (s.bind x).1 ∧ (c.l.shadow x).2 = (s.bind x).2 := by
  have htab := h.abs.tab
  rw [he] at htab
  obtain ⟨hslot, habs⟩ := shadow_abs htab x hf hx
  have hbind : s.bind x = ({ e := ((x, s.next) :: f) :: rest, next := s.next + 1 }, s.next) := by
    unfold SEnv.bind; rw [he]
  rw [hbind, h.next]
  refine ⟨⟨⟨habs, ?_⟩, ?_⟩, hslot⟩
  · have hm := h.abs.marks
    rw [he] at hm
    have hlen : (c.l.shadow x).1.i2k.length = c.l.i2k.length + 1 := by
      obtain ⟨s1, _, _⟩ := shadow_shifts x (c.l.i2k.length + 1) 0 c.l.tbl (abs_chain htab x 0)
      rw [shadow_eq c.l x s1]; simp
    show Marks c.scope _ (c.l.shadow x).1.i2k.length
    rw [hlen]
    exact marks_bind x hm
  · obtain ⟨s1, _, _⟩ := shadow_shifts x (c.l.i2k.length + 1) 0 c.l.tbl (abs_chain htab x 0)
    show c.l.i2k.length + 1 = (c.l.shadow x).1.i2k.length
    rw [shadow_eq c.l x s1]; simp

/-- **declare_rel.** -/
theorem declare_rel {c : C} {s : SEnv} (h : Rel c s) (x : String) (hx : x ≠ "") :
    Rel (c.declare x).1 (s.declare x).1 ∧ (c.declare x).2 = (s.declare x).2 := by
  have hm := h.abs.marks
  have htab := h.abs.tab
  -- the environment is never empty
  obtain ⟨f, rest, he⟩ : ∃ f rest, s.e = f :: rest := by
    cases hs : s.e with
    | nil => rw [hs] at hm; cases hsc : c.scope <;> rw [hsc] at hm <;> exact absurd hm (by simp [Marks])
    | cons f rest => exact ⟨f, rest, rfl⟩
  have hget : c.l.get (0, x) = (chainOf s.e x)[0]? := htab.tbl x 0
  rw [he] at hm htab
  cases hf : fget f x with
  | some n =>
    -- declared in this block already: reuse
    have hsd : s.declare x = (s, n) := by unfold SEnv.declare; rw [he]; simp [hf]
    have hvis : c.l.get (0, x) = some n := by rw [hget, he, chainOf_cons, hf]; rfl
    have hin : (x, n) ∈ f := fget_mem f x n hf
    have hcd : c.declare x = (c, n) := by
      unfold C.declare
      rw [hvis]
      cases hsc : c.scope with
      | nil =>
        simp only [index_visible c.l x n hvis]
        cases c; simp_all
      | cons mark ms =>
        rw [hsc] at hm
        have : ¬ n < mark := by have := (hm.2.1 (x, n) hin).1; simpa using this
        simp only [this, if_false, index_visible c.l x n hvis]
        cases c; simp_all
    rw [hsd, hcd]
    exact ⟨h, rfl⟩
  | none =>
    have hsd : s.declare x = s.bind x := by unfold SEnv.declare; rw [he]; simp [hf]
    have hb := bind_rel h x hx f rest he hf
    have hcd : c.declare x = ({ c with l := (c.l.shadow x).1 }, (c.l.shadow x).2) := by
      unfold C.declare
      cases hv : c.l.get (0, x) with
      | none => simp [← shadow_eq_index c.l x hv]
      | some n =>
        cases hsc : c.scope with
        | nil =>
          -- no open block: the base frame is the only frame, so x would be declared in it
          exfalso
          rw [hsc] at hm
          match rest, hm with
          | [], _ =>
            rw [hget, he, chainOf_cons, hf] at hv
            simp [chainOf] at hv
        | cons mark ms =>
          rw [hsc] at hm
          have hn : n < mark := by
            rw [hget, he, chainOf_cons, hf] at hv
            have hmem : n ∈ chainOf rest x := by
              cases hc : chainOf rest x with
              | nil => rw [hc] at hv; simp at hv
              | cons a t => rw [hc] at hv; simp at hv; rw [← hv]; exact List.mem_cons_self
            exact marks_lt ms rest mark hm.2.2 (x, n) (chain_mem_binds rest x n hmem)
          simp [hn]
    rw [hsd, hcd]
    exact hb


theorem index_rel {c : C} {s : SEnv} (h : Rel c s) (x : String) (hx : x ≠ "") :
    Rel (c.index x).1 (s.index x).1 ∧ (c.index x).2 = (s.index x).2 := by
  have htab := h.abs.tab
  have hget : c.l.get (0, x) = (chainOf s.e x)[0]? := htab.tbl x 0
  cases hc : chainOf s.e x with
  | cons n t =>
    have hvis : c.l.get (0, x) = some n := by rw [hget, hc]; rfl
    have hsi : s.index x = (s, n) := by unfold SEnv.index; rw [hc]; rfl
    have hci : c.index x = (c, n) := by
      unfold C.index; rw [index_visible c.l x n hvis]
    rw [hsi, hci]; exact ⟨h, rfl⟩
  | nil =>
    have hinv : c.l.get (0, x) = none := by rw [hget, hc]; rfl
    have hsi : s.index x = s.bind x := by unfold SEnv.index; rw [hc]; rfl
    have hm := h.abs.marks
    obtain ⟨f, rest, he⟩ : ∃ f rest, s.e = f :: rest := by
      cases hs : s.e with
      | nil => rw [hs] at hm; cases hsc : c.scope <;> rw [hsc] at hm <;> exact absurd hm (by simp [Marks])
      | cons f rest => exact ⟨f, rest, rfl⟩
    have hf : fget f x = none := by
      cases hfx : fget f x with
      | none => rfl
      | some n => rw [he, chainOf_cons, hfx] at hc; cases hc
    have hb := bind_rel h x hx f rest he hf
    have hci : c.index x = ({ c with l := (c.l.shadow x).1 }, (c.l.shadow x).2) := by
      unfold C.index; rw [shadow_eq_index c.l x hinv]
    rw [hsi, hci]; exact hb

theorem begin_rel {c : C} {s : SEnv} (h : Rel c s) : Rel c.begin s.begin :=
  ⟨begin_abs h.abs, h.next⟩

theorem end_rel {c : C} {s : SEnv} (h : Rel c s) : Rel c.end s.end := by
  have hm := h.abs.marks
  cases hsc : c.scope with
  | nil =>
    rw [hsc] at hm
    have hce : c.end = c := by unfold C.end; rw [hsc]
    match hse : s.e, hm with
    | [f], _ =>
      have : s.end = s := by unfold SEnv.end; rw [hse]
      rw [hce, this]; exact h
  | cons mark ms =>
    rw [hsc] at hm
    match hse : s.e, hm with
    | f :: e', ⟨h1, h2, h3⟩ =>
      obtain ⟨g, rest, he'⟩ : ∃ g rest, e' = g :: rest := by
        match ms, e', h3 with
        | [], [g], _ => exact ⟨g, [], rfl⟩
        | _ :: _, g :: rest, _ => exact ⟨g, rest, rfl⟩
      have hsend : s.end = { s with e := e' } := by unfold SEnv.end; rw [hse, he']
      have habs : Abs c (f :: e') := by have := h.abs; rw [hse] at this; exact this
      have hend := end_abs habs hsc
      rw [hsend]
      refine ⟨hend, ?_⟩
      show s.next = c.end.l.i2k.length
      have : c.end = { l := c.l.drop (c.l.i2k.length - mark), scope := ms } := by unfold C.end; rw [hsc]
      rw [this, drop_length]; exact h.next

/-! ### histories -/

inductive Op
  | begin
  | declare (x : String)
  | index (x : String)
  | «end»

def Op.named : Op → Bool
  | .declare x => x != ""
  | .index x => x != ""
  | _ => true

def stepC (c : C) : Op → C × Option Nat
  | .begin => (c.begin, none)
  | .declare x => let (c', n) := c.declare x; (c', some n)
  | .index x => let (c', n) := c.index x; (c', some n)
  | .end => (c.end, none)

def stepS (s : SEnv) : Op → SEnv × Option Nat
  | .begin => (s.begin, none)
  | .declare x => let (s', n) := s.declare x; (s', some n)
  | .index x => let (s', n) := s.index x; (s', some n)
  | .end => (s.end, none)

def runC (c : C) : List Op → C × List (Option Nat)
  | [] => (c, [])
  | op :: ops => let (c', r) := stepC c op; let (c'', rs) := runC c' ops; (c'', r :: rs)

def runS (s : SEnv) : List Op → SEnv × List (Option Nat)
  | [] => (s, [])
  | op :: ops => let (s', r) := stepS s op; let (s'', rs) := runS s' ops; (s'', r :: rs)

theorem step_rel {c : C} {s : SEnv} (h : Rel c s) (op : Op) (hn : op.named = true) :
    Rel (stepC c op).1 (stepS s op).1 ∧ (stepC c op).2 = (stepS s op).2 := by
  cases op with
  | begin => exact ⟨begin_rel h, rfl⟩
  | «end» => exact ⟨end_rel h, rfl⟩
  | declare x =>
    have hx : x ≠ "" := by simpa [Op.named] using hn
    have := declare_rel h x hx
    exact ⟨this.1, by simp [stepC, stepS, this.2]⟩
  | index x =>
    have hx : x ≠ "" := by simpa [Op.named] using hn
    have := index_rel h x hx
    exact ⟨this.1, by simp [stepC, stepS, this.2]⟩

theorem init_rel : Rel {} {} := by
  refine ⟨⟨⟨?_, ?_, ?_, ?_, ?_⟩, ?_⟩, rfl⟩
  · intro x j
    show (({} : Tbl)).get (j, x) = _
    have : chainOf [[]] x = [] := by simp [chainOf, fget]
    show _ = (chainOf [[]] x)[j]?
    rw [this]
    simp [Tbl.get]
  · intro f hf; simp at hf; subst hf; simp
  · simp [allBinds]
  · intro x n hm; simp [allBinds] at hm
  · intro n x hx; simp at hx
  · show Marks [] [[]] 0
    intro b hb; simp at hb

/-- **scope_refines.** For every history of block entries, declarations, hidden-variable look-ups
    and block exits (however deep, however names repeat), the symbol table with its `~`-chains and
    the stack-of-frames specification stay related: every declaration returns the same slot in
    both, and afterwards every name resolves to the same slot — Go's rule "the innermost enclosing
    block that declares the name". -/
theorem scope_refines (ops : List Op) (hn : ∀ op ∈ ops, op.named = true) :
    ∀ (c : C) (s : SEnv), Rel c s →
      Rel (runC c ops).1 (runS s ops).1 ∧ (runC c ops).2 = (runS s ops).2 := by
  induction ops with
  | nil => intro c s h; exact ⟨h, rfl⟩
  | cons op ops ih =>
    intro c s h
    have hs := step_rel h op (hn op (by simp))
    have := ih (fun o ho => hn o (by simp [ho])) _ _ hs.1
    simp only [runC, runS]
    exact ⟨this.1, by rw [hs.2, this.2]⟩

theorem scope_refines_resolve (ops : List Op) (hn : ∀ op ∈ ops, op.named = true) (x : String) :
    (runC {} ops).1.resolve x = (runS {} ops).1.resolve x :=
  resolve_eq (scope_refines ops hn {} {} init_rel).1 x


/-! ### non-vacuity: `x` declared at three nesting levels, the inner two closed again -/

example :
    let ops := [Op.declare "x", .begin, .declare "y", .declare "x", .begin, .declare "x", .end, .declare "z", .end]
    (runS {} ops).2 = [some 0, none, some 1, some 2, none, some 3, none, some 4, none] ∧
    (runS {} ops).1.resolve "x" = some 0 ∧ (runS {} ops).1.resolve "y" = none := by decide

/-! ### which table an identifier is looked up in (compiler.go `case "(name)"`, generated order) -/

open Goat.Resolve in
/-- **local_wins.** With the chain of tests in the order of the source (`Gen.resolveOrder`, regenerated from
    compiler.go on every run): an identifier bound in the enclosing scopes of the function resolves to that
    binding whatever package-level names and builtins the table of globals holds - and however they got
    there (an earlier load, an earlier Eval, a declaration further down the file) - unless the body being
    compiled declared a type of that name. -/
theorem local_wins (t : Tab) (c : Ctx) (x : String) (hx : x ≠ "$") (hl : x ∈ c.locals)
    (ht : Key.ltype c.fn x ∉ t.keys) : resolve t c x = .localGet x :=
  Goat.Resolve.local_wins t c x hx hl ht

open Goat.Resolve in
/-- **local_wins_after_any_history.** In the body of a function f that is compiled after ANY history of
    compilations (of other functions, of earlier bodies of f, of literals that had the same position-made
    name) and package-level definitions, at a point where the body has declared the types `tys`, a bound
    identifier that is not one of them is the local. -/
theorem local_wins_after_any_history (h : List Ev) (hok : ∀ e ∈ h, e.ok) (f : String) (hf : f ≠ "")
    (tys : List String) (locals : List String) (x : String) (hx : x ≠ "$") (hl : x ∈ locals) (hn : x ∉ tys) :
    resolve (step (run h) (.compile f tys)) { fn := f, inScope := true, locals := locals } x = .localGet x :=
  Goat.Resolve.local_wins_after_any_history h hok f hf tys locals x hx hl hn

open Goat.Resolve in
/-- a package-level name beats a builtin of the same name -/
theorem package_beats_builtin (t : Tab) (c : Ctx) (x : String) (hx : x ≠ "$") (hl : x ∉ c.locals)
    (ht : Key.ltype c.fn x ∉ t.keys) (hg : Key.glob x ∈ t.keys) : resolve t c x = .globalGet (.glob x) :=
  Goat.Resolve.package_beats_builtin t c x hx hl ht hg

open Goat.Resolve in
/-- a name found nowhere is a forward reference to the package-level name (resolved when the code runs) -/
theorem forward_reference (t : Tab) (c : Ctx) (x : String) (hx : x ≠ "$") (hl : x ∉ c.locals)
    (ht : Key.ltype c.fn x ∉ t.keys) (hg : Key.glob x ∉ t.keys) (hb : Key.builtin x ∉ t.keys) :
    resolve t c x = .globalGet (.glob x) :=
  Goat.Resolve.forward_reference t c x hx hl ht hg hb

/-- every case of `compile` that compiles a function body enters it through `enterFunc` (regenerated) -/
theorem bodies_enter_through_enterFunc : Gen.enterFuncCases = ["function", "init", "lambda", "method"] := by decide

/-- `enterFunc` has the shape the model assumes: it records the name and, for a name compiled before, deletes
    exactly the keys `<name>.<identifier>` (the extractor compares the body statement by statement) -/
theorem enterFunc_has_model_shape : Gen.enterFuncDrops = true := by decide

example : Goat.Resolve.resolve (Goat.Resolve.step (Goat.Resolve.run Goat.Resolve.hist) (.compile "main.f" []))
    { fn := "main.f", inScope := true, locals := ["acc"] } "acc" = .localGet "acc" := by decide

end Goat.Props.C08

#print axioms Goat.Props.C08.shadow_shifts
#print axioms Goat.Props.C08.unshadow_unshifts
#print axioms Goat.Props.C08.shadow_unshadow_id
#print axioms Goat.Props.C08.index_fresh
#print axioms Goat.Props.C08.index_visible
#print axioms Goat.Props.C08.drop_length
#print axioms Goat.Props.C08.shadow_abs
#print axioms Goat.Props.C08.drop_step
#print axioms Goat.Props.C08.drop_abs
#print axioms Goat.Props.C08.declare_rel
#print axioms Goat.Props.C08.index_rel
#print axioms Goat.Props.C08.end_rel
#print axioms Goat.Props.C08.scope_refines
#print axioms Goat.Props.C08.scope_refines_resolve
#print axioms Goat.Props.C08.local_wins
#print axioms Goat.Props.C08.local_wins_after_any_history
#print axioms Goat.Props.C08.package_beats_builtin
#print axioms Goat.Props.C08.forward_reference
#print axioms Goat.Props.C08.bodies_enter_through_enterFunc
#print axioms Goat.Props.C08.enterFunc_has_model_shape
