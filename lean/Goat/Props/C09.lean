import Goat.Model.Call
/-!
# C09 — calls deliver arguments and results in order and with their declared types

The index arithmetic of `mkFunc`, `callReady`, `call` and `newMethod` (kept literally in the
model) is shown equal to the specification: for **every** caller stack prefix `S` — whatever else
is on the stack, at any recursion depth — a call replaces exactly its arguments by exactly the
requested results, converted to the declared types, in order, and `S` is untouched; surplus
arguments of a variadic function arrive packed in one slice in the last parameter; a method's
receiver arrives as parameter 0 under the arguments; a wrong argument count or a request for more
results than the callee yields is an error, never a silently misaligned stack.

Hypothesis `FrameLocal`: the body only works inside its own frame and returns exactly its declared
number of results. For compiled code this is what C07's verifier checks on every path (slots in
range, no underflow, `RETURN n` with exactly n values).
-/
namespace Goat.Props.C09
open Goat.Call

variable {V : Type}

/-- the body respects its frame: run on `S ++ F` (frame `F` of `slots` values) it leaves `S`,
    `slots` final locals and exactly `rets` results -/
structure FrameLocal (fn : Fn V) where
  body : List V → Option (List V × List V)
  law : ∀ (S F : List V), F.length = fn.slots →
    fn.run S.length (S ++ F) = (body F).map fun lr => S ++ lr.1 ++ lr.2
  locals_len : ∀ F l r, F.length = fn.slots → body F = some (l, r) → l.length = fn.slots
  rets_len : ∀ F l r, body F = some (l, r) → r.length = fn.rets
  slots_ge : fn.args ≤ fn.slots

theorem convRange_append (f : Nat → V → V) (S A : List V) :
    convRange f S.length A.length (S ++ A) = S ++ A.mapIdx f := by
  unfold convRange
  rw [List.mapIdx_append]
  congr 1
  · apply List.ext_getElem (by simp)
    intro i h1 h2
    simp only [List.getElem_mapIdx]
    have : i < S.length := by simpa using h1
    simp [show ¬ S.length ≤ i by omega]
  · apply List.ext_getElem (by simp)
    intro i h1 h2
    simp only [List.getElem_mapIdx]
    have : i < A.length := by simpa using h1
    simp [show S.length ≤ i + S.length by omega, show i + S.length < S.length + A.length by omega]

/-- the frame a call builds: typed arguments followed by empty slots -/
def frameOf (nil : V) (fn : Fn V) (A : List V) : List V :=
  A.mapIdx fn.argConv ++ List.replicate (fn.slots - fn.args) nil

/-- **mkFunc on any caller stack** -/
theorem mkFunc_spec (nil : V) (fn : Fn V) (fl : FrameLocal fn) (S A : List V) (hA : A.length = fn.args) :
    mkFunc nil fn (S ++ A) =
      match fl.body (frameOf nil fn A) with
      | none => none
      | some (_, r) => some (S ++ r.mapIdx fn.retConv) := by
  have hflen : (frameOf nil fn A).length = fn.slots := by
    simp [frameOf, hA]; have := fl.slots_ge; omega
  unfold mkFunc
  have hbase : (S ++ A).length - fn.args = S.length := by simp [hA]
  simp only [hbase]
  rw [← hA, convRange_append, hA]
  have e : S ++ A.mapIdx fn.argConv ++ List.replicate (fn.slots - fn.args) nil = S ++ frameOf nil fn A := by
    simp [frameOf]
  rw [e, fl.law S _ hflen]
  cases hb : fl.body (frameOf nil fn A) with
  | none => simp
  | some lr =>
    obtain ⟨l, r⟩ := lr
    have hl := fl.locals_len _ l r hflen hb
    have hr := fl.rets_len _ l r hb
    simp only [Option.map_some]
    have h1 : (S ++ l ++ r).take S.length = S := by simp
    have h2 : (S ++ l ++ r).drop (S ++ frameOf nil fn A).length = r := by
      have : (S ++ frameOf nil fn A).length = (S ++ l).length := by simp [hflen, hl]
      rw [this, List.drop_left]
    rw [h1, h2]
    have hlen : ¬ (S ++ r).length < fn.rets := by simp [hr]
    simp only [hlen, if_false]
    have : (S ++ r).length - fn.rets = S.length := by simp [hr]
    rw [this, ← hr, convRange_append]

/-- **call_frame.** `callReady` with the right argument count: the caller's prefix `S` is
    untouched, the arguments are replaced by the first `xRets` typed results; asking for more
    results than the function declares is an error. -/
theorem call_frame (nil : V) (fn : Fn V) (fl : FrameLocal fn) (S A : List V) (hA : A.length = fn.args)
    (xRets : Nat) :
    callReady nil fn fn.args xRets (S ++ A) =
      match fl.body (frameOf nil fn A) with
      | none => none
      | some (_, r) => if fn.rets < xRets then none else some (S ++ (r.mapIdx fn.retConv).take xRets) := by
  unfold callReady
  have h0 : ¬ (S ++ A).length < fn.args := by simp [hA]
  simp only [ne_eq, not_true_eq_false, if_false, h0]
  rw [mkFunc_spec nil fn fl S A hA]
  cases hb : fl.body (frameOf nil fn A) with
  | none => simp
  | some lr =>
    obtain ⟨l, r⟩ := lr
    have hr := fl.rets_len _ l r hb
    have htop : (S ++ A).length - fn.args = S.length := by simp [hA]
    simp only [htop]
    by_cases hx : fn.rets < xRets
    · have : (S ++ r.mapIdx fn.retConv).length < S.length + xRets := by simp [hr]; omega
      simp only [this, hx, if_true]
    · have : ¬ (S ++ r.mapIdx fn.retConv).length < S.length + xRets := by simp [hr]; omega
      simp only [this, hx, if_false]
      congr 1
      rw [List.take_append]
      simp
      exact List.take_of_length_le (by omega)

/-- a call with the wrong number of arguments is an error and changes nothing -/
theorem wrong_arg_count (nil : V) (fn : Fn V) (xArgs xRets : Nat) (stack : List V) (h : xArgs ≠ fn.args) :
    callReady nil fn xArgs xRets stack = none := by
  unfold callReady; simp [h]

/-- **variadic_pack.** Calling a variadic function with `fixed ++ extra` arguments (`fixed` the
    `args − 1` ordinary ones, `extra` any number, also none) is the plain call with `extra` packed
    into one slice as the last argument; `S` is untouched. -/
theorem variadic_pack (nil : V) (mkSlice : List V → V) (fn : Fn V) (hv : fn.variadic = true)
    (S fixed extra : List V) (hf : fixed.length + 1 = fn.args) (xRets : Nat) :
    call nil mkSlice fn (fixed.length + extra.length) xRets (S ++ fixed ++ extra) =
      callReady nil fn fn.args xRets (S ++ (fixed ++ [mkSlice extra])) := by
  unfold call
  have h1 : ¬ (fixed.length + extra.length + 1 < fn.args) := by omega
  have h2 : ¬ ((S ++ fixed ++ extra).length < fixed.length + extra.length) := by simp
  simp only [hv, Bool.not_true, Bool.false_eq_true, if_false, h1, h2]
  have hn : fixed.length + extra.length + 1 - fn.args = extra.length := by omega
  have he : (S ++ fixed ++ extra).length - extra.length = (S ++ fixed).length := by simp; omega
  rw [hn, he, List.take_left, List.drop_left]
  have : fixed.length + extra.length - extra.length + 1 = fn.args := by omega
  rw [this]
  simp [List.append_assoc]

/-- **method_receiver.** A bound method called with its `args − 1` arguments runs the function
    with the receiver as parameter 0 followed by the arguments, in order. -/
theorem method_receiver (nil : V) (recv : V) (fn : Fn V) (S A : List V) (hA : A.length + 1 = fn.args) :
    methodCall nil recv fn (S ++ A) = mkFunc nil fn (S ++ ([recv] ++ A)) := by
  unfold methodCall
  have h : (S ++ A).length - (fn.args - 1) = S.length := by simp; omega
  simp only [h]
  rw [List.take_left, List.drop_left]
  simp [List.append_assoc]

/-! ### non-vacuity: a two-result swap function on a non-empty caller stack -/

def swapFn : Fn Nat :=
  { args := 2, rets := 2, variadic := false, slots := 3, argConv := fun _ v => v, retConv := fun _ v => v,
    run := fun base s => some (s ++ [s.getD (base + 1) 0, s.getD base 0]) }

example : callReady 0 swapFn 2 2 [7, 8, 1, 2] = some [7, 8, 2, 1] := by decide
example : callReady 0 swapFn 2 1 [7, 8, 1, 2] = some [7, 8, 2] := by decide
example : callReady 0 swapFn 2 3 [7, 8, 1, 2] = none := by decide
example : callReady 0 swapFn 1 1 [7, 8, 1, 2] = none := by decide

end Goat.Props.C09

#print axioms Goat.Props.C09.mkFunc_spec
#print axioms Goat.Props.C09.call_frame
#print axioms Goat.Props.C09.wrong_arg_count
#print axioms Goat.Props.C09.variadic_pack
#print axioms Goat.Props.C09.method_receiver
