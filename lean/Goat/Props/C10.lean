import Goat.Lemmas.OMap
import Goat.Model.Tuple
import Goat.Gen.Tables
/-!
# C10 — script maps behave like Go maps under any history of operations

The specification is a finite map `K → Option V` (a Go map); `m.get` is the abstraction.
All theorems hold for every key type with decidable equality, every value type, every history
and — for the lazily compacted key list — every order `maps.Keys` may return.
-/
namespace Goat.Props.C10
open Goat.OMap

variable {K V : Type} [DecidableEq K]

/-! ### refinement of the finite-map specification -/

/-- lookup after insert/update sees the latest write, other keys are unaffected -/
theorem get_set (m : M K V) (k k' : K) (v : V) :
    (m.set k v).get k' = if k' = k then some v else m.get k' := by
  unfold M.set M.get
  by_cases hk : (aget k m.data).isSome <;> by_cases h : k' = k
  · subst h; simp [hk, aget_aput_eq]
  · simp [hk, h, aget_aput_ne _ _ h]
  · subst h; simp [hk, aget_aput_eq]
  · simp [hk, h, aget_aput_ne _ _ h]

/-- lookup after delete: the key is gone (comma-ok false / zero value), other keys are unaffected;
    whichever order the compaction picks -/
theorem get_delete (m : M K V) (h : Inv m) (k k' : K) (perm : List K) :
    (m.delete k perm).get k' = if k' = k then none else m.get k' := by
  have hd : (m.delete k perm).data = adel k m.data := by
    unfold M.delete
    by_cases hc : (adel k m.data).length ≥ m.keys.length / 2 <;> simp [hc]
  unfold M.get
  rw [hd]
  by_cases hk : k' = k
  · subst hk
    simp [aget_adel_eq k' m.data h.live_nodup]
  · simp [hk, aget_adel_ne (V := V) m.data hk]

/-- `len` counts the live keys: it grows by one exactly for a new key … -/
theorem len_set (m : M K V) (k : K) (v : V) :
    (m.set k v).len = if (m.get k).isSome then m.len else m.len + 1 := by
  unfold M.set M.len
  by_cases hk : (m.get k).isSome
  · simp only [hk, if_true]; rw [length_aput]; simp [M.get] at hk; simp [hk]
  · simp only [hk]
    have : (aget k m.data).isSome = false := by simpa [M.get] using hk
    simp [length_aput, this]

/-- … and shrinks by one exactly for a present key -/
theorem len_delete (m : M K V) (k : K) (perm : List K) :
    (m.delete k perm).len = if (m.get k).isSome then m.len - 1 else m.len := by
  have hd : (m.delete k perm).data = adel k m.data := by
    unfold M.delete
    by_cases hc : (adel k m.data).length ≥ m.keys.length / 2 <;> simp [hc]
  unfold M.len
  rw [hd, length_adel]
  rfl

/-- the live keys are duplicate-free and `len` is their number; a key is live iff lookup finds it -/
theorem len_counts (m : M K V) (h : Inv m) :
    m.len = m.live.length ∧ m.live.Nodup ∧ ∀ k, k ∈ m.live ↔ (m.get k).isSome :=
  ⟨by simp [M.len, M.live, akeys], h.live_nodup, fun k => mem_akeys_iff k m.data⟩

/-! ### the invariant holds in every reachable state -/

inductive Op (K V : Type) where
  | set (k : K) (v : V)
  | del (k : K) (perm : List K)

def apply (m : M K V) : Op K V → M K V
  | .set k v => m.set k v
  | .del k p => m.delete k p

/-- every delete is given an order that is a permutation of the keys live after it -/
def Valid : M K V → List (Op K V) → Prop
  | _, [] => True
  | m, .set k v :: ops => Valid (m.set k v) ops
  | m, .del k p :: ops => p.Perm (akeys (adel k m.data)) ∧ Valid (m.delete k p) ops

theorem inv_history (m : M K V) (h : Inv m) (ops : List (Op K V)) (hv : Valid m ops) :
    Inv (ops.foldl apply m) := by
  induction ops generalizing m with
  | nil => exact h
  | cons op ops ih =>
    cases op with
    | set k v => exact ih _ (inv_set m k v h) hv
    | del k p => exact ih _ (inv_delete m k p h hv.1) hv.2

/-- a map built from a literal (keys may even coincide at run time) satisfies the invariant -/
theorem inv_ofList (pairs : List (K × V)) : Inv (M.ofList pairs) := by
  unfold M.ofList
  suffices ∀ (m : M K V), Inv m → m.keys = m.live →
      Inv (pairs.foldl (fun m p =>
        ({ data := aput p.1 p.2 m.data,
           keys := if (aget p.1 m.data).isSome then m.keys else m.keys ++ [p.1] } : M K V)) m) from
    this ⟨[], []⟩ inv_empty rfl
  induction pairs with
  | nil => intro m h _; exact h
  | cons p t ih =>
    intro m h hk
    apply ih
    · by_cases hs : (aget p.1 m.data).isSome
      · have e := akeys_aput_old p.1 p.2 m.data hs
        exact ⟨by simpa [M.live, e] using h.live_nodup, by simpa [hs] using h.keys_nodup,
          by simpa [M.live, e, hs] using h.live_sub⟩
      · have hn : aget p.1 m.data = none := by
          cases h' : aget p.1 m.data with
          | none => rfl
          | some _ => simp [h'] at hs
        have e := akeys_aput_new p.1 p.2 m.data hn
        have hnl : p.1 ∉ m.live := fun hm => by
          have := (mem_akeys_iff p.1 m.data).mp hm; simp [hn] at this
        have hnd : (m.live ++ [p.1]).Nodup := List.nodup_append.mpr ⟨h.live_nodup, by simp, by
          intro a ha b hb; simp at hb; subst hb; intro e'; subst e'; exact hnl ha⟩
        refine ⟨by simpa [M.live, e] using hnd, by simpa [hs, hk] using hnd, ?_⟩
        intro x hx
        simpa [M.live, e, hs, hk] using hx
    · by_cases hs : (aget p.1 m.data).isSome
      · simp [M.live, akeys_aput_old p.1 p.2 m.data hs, hs, hk]
      · have hn : aget p.1 m.data = none := by
          cases h' : aget p.1 m.data with
          | none => rfl
          | some _ => simp [h'] at hs
        simp [M.live, akeys_aput_new p.1 p.2 m.data hn, hs, hk]

/-! ### refinement over whole histories -/

/-- the specification: a Go map as a function, one step per operation -/
def specStep (f : K → Option V) : Op K V → (K → Option V)
  | .set k v => fun k' => if k' = k then some v else f k'
  | .del k _ => fun k' => if k' = k then none else f k'

/-- **history_refines.** After any history of sets and deletes (every delete compacting to whatever
    order of the live keys), lookup of every key is what the finite-map specification gives. -/
theorem history_refines (m : M K V) (h : Inv m) (ops : List (Op K V)) (hv : Valid m ops) (k : K) :
    (ops.foldl apply m).get k = (ops.foldl specStep m.get) k := by
  induction ops generalizing m with
  | nil => rfl
  | cons op ops ih =>
    cases op with
    | set k1 v =>
      simp only [List.foldl_cons, apply, specStep]
      rw [ih _ (inv_set m k1 v h) hv]
      have e : (m.set k1 v).get = fun k' => if k' = k1 then some v else m.get k' :=
        funext fun k' => get_set m k1 k' v
      rw [e]
    | del k1 p =>
      simp only [List.foldl_cons, apply, specStep]
      rw [ih _ (inv_delete m k1 p h hv.1) hv.2]
      have e : (m.delete k1 p).get = fun k' => if k' = k1 then none else m.get k' :=
        funext fun k' => get_delete m h k1 k' p
      rw [e]

/-- and `len` is the number of keys the specification maps to a value, counted over any list of
    candidate keys without duplicates that covers the live ones -/
theorem len_refines (m : M K V) (h : Inv m) (ops : List (Op K V)) (hv : Valid m ops) :
    let m' := ops.foldl apply m
    m'.len = m'.live.length ∧ ∀ k, k ∈ m'.live ↔ ((ops.foldl specStep m.get) k).isSome := by
  intro m'
  have hi := inv_history m h ops hv
  obtain ⟨h1, _, h3⟩ := len_counts m' hi
  refine ⟨h1, fun k => ?_⟩
  rw [h3 k, history_refines m h ops hv k]

/-! ### the range contract, for every interleaving of iteration with mutation -/

/-- (1) a visit yields a key that is live at that moment, with its current value; the keys skipped
    before it are dead at that moment -/
theorem visit_is_live {m : M K V} {rem rem' : List K} {k : K} {v : V}
    (h : next m rem = (some (k, v), rem')) :
    m.get k = some v ∧ ∃ pre, rem = pre ++ k :: rem' ∧ ∀ x ∈ pre, m.get x = none := by
  obtain ⟨pre, e, hv, hd⟩ := next_some h
  exact ⟨hv, pre, e, hd⟩

/-- (2)+(4) no key is visited twice — in particular a key deleted and re-inserted, or inserted
    during the loop, is visited at most once — and only snapshot keys are visited -/
theorem visits_nodup (m : M K V) (rem : List K) (es : List (Ev K V)) (hnd : rem.Nodup) :
    ((run m rem es).1.map (·.1)).Nodup ∧ (∀ k ∈ (run m rem es).1.map (·.1), k ∈ rem) ∧
    (run m rem es).2.Nodup ∧ (∀ k ∈ (run m rem es).2, k ∈ rem) := by
  induction es generalizing m rem with
  | nil => simp [run, hnd]
  | cons e es ih =>
    cases e with
    | set k v => simpa [run] using ih (m.set k v) rem hnd
    | del k p => simpa [run] using ih (m.delete k p) rem hnd
    | next =>
      unfold run
      cases hn : next m rem with
      | mk o rem' =>
        cases o with
        | none =>
          obtain ⟨e, _⟩ := next_none hn
          subst e
          have := ih m [] (by simp)
          simp only
          refine ⟨this.1, ?_, this.2.2.1, ?_⟩
          · intro k hk; exact absurd (this.2.1 k hk) (by simp)
          · intro k hk; exact absurd (this.2.2.2 k hk) (by simp)
        | some kv =>
          obtain ⟨k, v⟩ := kv
          obtain ⟨pre, e, _, _⟩ := next_some hn
          subst e
          have hnd' : (k :: rem').Nodup := (List.nodup_append.mp hnd).2.1
          have hkr : k ∉ rem' := (List.nodup_cons.mp hnd').1
          have := ih m rem' (List.nodup_cons.mp hnd').2
          simp only [List.map_cons, List.nodup_cons, List.mem_cons]
          refine ⟨⟨fun hk => hkr (this.2.1 k hk), this.1⟩, ?_, this.2.2.1, ?_⟩
          · rintro x (rfl | hx)
            · simp
            · exact List.mem_append_right _ (List.mem_cons_of_mem _ (this.2.1 x hx))
          · intro x hx
            exact List.mem_append_right _ (List.mem_cons_of_mem _ (this.2.2.2 x hx))

/-- a key that stays live from the snapshot through every step of the loop -/
def AlwaysLive (k : K) : M K V → List (Ev K V) → Prop
  | m, [] => (m.get k).isSome
  | m, .set k' v :: es => (m.get k).isSome ∧ AlwaysLive k (m.set k' v) es
  | m, .del k' p :: es => (m.get k).isSome ∧ AlwaysLive k (m.delete k' p) es
  | m, .next :: es => (m.get k).isSome ∧ AlwaysLive k m es

/-- (3) a snapshot key that is live for the whole loop is either visited or still ahead -/
theorem visits_complete (k : K) (m : M K V) (rem : List K) (es : List (Ev K V))
    (hk : k ∈ rem) (hl : AlwaysLive k m es) :
    k ∈ (run m rem es).1.map (·.1) ∨ k ∈ (run m rem es).2 := by
  induction es generalizing m rem with
  | nil => simp [run, hk]
  | cons e es ih =>
    cases e with
    | set k' v => simpa [run] using ih (m.set k' v) rem hk hl.2
    | del k' p => simpa [run] using ih (m.delete k' p) rem hk hl.2
    | next =>
      unfold run
      have hlive : (m.get k).isSome := hl.1
      cases hn : next m rem with
      | mk o rem' =>
        cases o with
        | none =>
          obtain ⟨_, hd⟩ := next_none hn
          have := hd k hk
          simp [this] at hlive
        | some kv =>
          obtain ⟨k2, v⟩ := kv
          obtain ⟨pre, e, _, hd⟩ := next_some hn
          subst e
          simp only [List.map_cons, List.mem_cons]
          rcases List.mem_append.mp hk with hp | hp
          · have := hd k hp; simp [this] at hlive
          · rcases List.mem_cons.mp hp with rfl | hp
            · exact Or.inl (Or.inl rfl)
            · rcases ih m rem' hp hl.2 with h | h
              · exact Or.inl (Or.inr h)
              · exact Or.inr h

/-- **the range contract.** Start a `range` over a map in any reachable state (`Inv`), and let the
    loop body and the iterator interleave in any way (`es`). Then: no key is visited twice; every
    visited key belonged to the snapshot; and if the loop ran to exhaustion (nothing of the
    snapshot is left), every key that was live from the snapshot to the end has been visited. -/
theorem range_contract (m : M K V) (h : Inv m) (es : List (Ev K V)) :
    ((run m m.keys es).1.map (·.1)).Nodup ∧
    (∀ k, k ∈ m.live → AlwaysLive k m es → (run m m.keys es).2 = [] →
        k ∈ (run m m.keys es).1.map (·.1)) := by
  refine ⟨(visits_nodup m m.keys es h.keys_nodup).1, ?_⟩
  intro k hk hl hfin
  rcases visits_complete k m m.keys es (h.live_sub k hk) hl with h1 | h1
  · exact h1
  · rw [hfin] at h1; cases h1

/-! ### non-vacuity: delete-then-reinsert, compaction and mutation during a loop -/

/-- `m := {1:1, 2:2}; delete(m,1); m[1] = 5; for range m` — key 1 is visited once -/
example :
    let m := ((M.ofList [(1, 1), (2, 2)] : M Nat Nat).delete 1 []).set 1 5
    (run m m.keys [.next, .next, .next]).1 = [(2, 2), (1, 5)] ∧ m.len = 2 := by decide

/-- a stale key, a delete-and-reinsert during the loop, and an insert during the loop:
    every visit is of a live key, none is repeated -/
example :
    let m0 : M Nat Nat := M.ofList [(1, 10), (2, 20), (3, 30), (4, 40), (5, 50)]
    let m := m0.delete 2 []
    m.keys = [1, 2, 3, 4, 5] ∧
    (run m m.keys [.next, .del 3 [], .set 3 33, .set 9 90, .next, .next, .next, .next]) =
      ([(1, 10), (3, 33), (4, 40), (5, 50)], []) := by decide

/-- deleting below half occupancy compacts the key list to the supplied order -/
example :
    let m0 : M Nat Nat := M.ofList [(1, 10), (2, 20), (3, 30), (4, 40), (5, 50)]
    ((((m0.delete 1 []).delete 2 []).delete 3 []).delete 4 [5]).keys = [5] ∧
    (((m0.delete 1 []).delete 2 []).delete 3 []).keys = [1, 2, 3, 4, 5] := by decide

example : Inv ((M.ofList [(1, 1), (2, 2)] : M Nat Nat).delete 1 [2]) :=
  inv_delete _ 1 [2] (inv_ofList _) (by decide)


/-! ### multi-target assignment: `m[k1], m[k2], x = v1, v2, v3` (Model/Tuple.lean)

goatlang stores the targets from the last to the first, Go from the first to the last. The
theorems say exactly where that can be seen: nowhere when no location is the target of two stores
(`tuple_assign_distinct`), and otherwise only at a location named twice with different first and
last values (`tuple_assign_differs_iff`) — the open finding `tuple-assignment-same-key`. -/
section Tuple
open Goat.Tuple
variable {L V : Type} [DecidableEq L]

theorem foldl_step_append (σ : L → V) (a b : List (Option L × V)) :
    (a ++ b).foldl step σ = b.foldl step (a.foldl step σ) := List.foldl_append ..

/-- after applying the stores of `tvs` in list order, a location holds the value of the LAST entry
    naming it, else its old value -/
theorem foldl_reads_last (tvs : List (Option L × V)) (σ : L → V) (l : L) :
    tvs.foldl step σ l = (firstFor l tvs.reverse).getD (σ l) := by
  induction tvs generalizing σ with
  | nil => rfl
  | cons tv rest ih =>
    rw [List.foldl_cons, ih, List.reverse_cons]
    have happ : ∀ (a : List (Option L × V)) (d : V),
        (firstFor l (a ++ [tv])).getD d = (firstFor l a).getD ((firstFor l [tv]).getD d) := by
      intro a d
      induction a with
      | nil => rfl
      | cons x xs ihx =>
        obtain ⟨xl, xv⟩ := x
        cases xl with
        | none => simpa [firstFor] using ihx
        | some l' =>
          by_cases e : l' = l
          · simp [firstFor, e]
          · simpa [firstFor, e] using ihx
    rw [happ]
    congr 1
    obtain ⟨tl, tvv⟩ := tv
    cases tl with
    | none => simp [step, firstFor]
    | some l' =>
      by_cases e : l' = l
      · simp [step, put, firstFor, e]
      · have e' : ¬ l = l' := fun h => e h.symm
        simp [step, put, firstFor, e, e']

/-- **go_reads_last / impl_reads_first.** -/
theorem go_reads_last (σ : L → V) (tvs : List (Option L × V)) (l : L) :
    goStores σ tvs l = (lastFor l tvs).getD (σ l) := foldl_reads_last tvs σ l

theorem impl_reads_first (σ : L → V) (tvs : List (Option L × V)) (l : L) :
    implStores σ tvs l = (firstFor l tvs).getD (σ l) := by
  unfold implStores
  rw [foldl_reads_last, List.reverse_reverse]

/-- no location is named by two targets -/
def Distinct : List (Option L × V) → Prop
  | [] => True
  | (some l, _) :: rest => firstFor l rest = none ∧ Distinct rest
  | (none, _) :: rest => Distinct rest

theorem firstFor_append (l : L) (a b : List (Option L × V)) :
    firstFor l (a ++ b) = (firstFor l a).orElse (fun _ => firstFor l b) := by
  induction a with
  | nil => simp [firstFor]
  | cons x xs ih =>
    obtain ⟨xl, xv⟩ := x
    cases xl with
    | none => simpa [firstFor] using ih
    | some l' =>
      by_cases e : l' = l
      · simp [firstFor, e]
      · simpa [firstFor, e] using ih

theorem first_eq_last_of_distinct (l : L) (tvs : List (Option L × V)) (h : Distinct tvs) :
    lastFor l tvs = firstFor l tvs := by
  unfold lastFor
  induction tvs with
  | nil => rfl
  | cons x xs ih =>
    obtain ⟨xl, xv⟩ := x
    rw [List.reverse_cons, firstFor_append]
    cases xl with
    | none =>
      rw [ih h]
      cases hq : firstFor l xs <;> simp [firstFor, hq]
    | some l' =>
      obtain ⟨h1, h2⟩ := h
      rw [ih h2]
      by_cases e : l' = l
      · subst e; simp [firstFor, h1]
      · cases hq : firstFor l xs <;> simp [firstFor, e, hq]

/-- **tuple_assign_distinct.** When no location is the target of two stores, goatlang's right-to-left
    stores leave exactly the state Go's left-to-right stores leave. -/
theorem tuple_assign_distinct (σ : L → V) (tvs : List (Option L × V)) (h : Distinct tvs) :
    implStores σ tvs = goStores σ tvs := by
  funext l
  rw [impl_reads_first, go_reads_last, first_eq_last_of_distinct l tvs h]

/-- and in general the two differ at `l` exactly when the first and the last target naming `l`
    carry different values -/
theorem tuple_assign_differs_iff (σ : L → V) (tvs : List (Option L × V)) (l : L) :
    implStores σ tvs l = goStores σ tvs l ↔ (firstFor l tvs).getD (σ l) = (lastFor l tvs).getD (σ l) := by
  rw [impl_reads_first, go_reads_last]

/-- the open finding `tuple-assignment-same-key` as a theorem about the model: `m[k], m[k] = 1, 2` -/
example : runOn false [0] [(some 0, 1), (some 0, 2)] = [1] ∧ runOn true [0] [(some 0, 1), (some 0, 2)] = [2] := by
  decide

/-- non-vacuity: the swap and the pop-front shape satisfy `Distinct` -/
example : Distinct [((some 0 : Option Nat), (5 : Int)), (some 1, 6), (none, 7)] := by
  simp [Distinct, firstFor]

/-- the regenerated tie: compile's `case "="` still evaluates target operands, then the right-hand
    side once, then emits the stores in one loop from the last target to the first (goatx) -/
theorem tuple_tie : Gen.tupleStoresLastFirst = true := by decide

end Tuple

end Goat.Props.C10

#print axioms Goat.Props.C10.get_set
#print axioms Goat.Props.C10.get_delete
#print axioms Goat.Props.C10.len_set
#print axioms Goat.Props.C10.len_delete
#print axioms Goat.Props.C10.len_counts
#print axioms Goat.Props.C10.inv_history
#print axioms Goat.Props.C10.inv_ofList
#print axioms Goat.Props.C10.visit_is_live
#print axioms Goat.Props.C10.visits_nodup
#print axioms Goat.Props.C10.visits_complete
#print axioms Goat.Props.C10.range_contract
#print axioms Goat.Props.C10.history_refines
#print axioms Goat.Props.C10.len_refines
#print axioms Goat.Props.C10.go_reads_last
#print axioms Goat.Props.C10.impl_reads_first
#print axioms Goat.Props.C10.tuple_assign_distinct
#print axioms Goat.Props.C10.tuple_assign_differs_iff
#print axioms Goat.Props.C10.tuple_tie
