import Goat.Model.Slice
/-!
# C11 — slices alias, grow and copy as Go slices do

Theorems about the view/heap model of slices, for all heaps, all views and **every growth
policy** (the capacity of a reallocated array is a parameter):

* `alias_write` — a write through one view is visible through every view of the same array at
  the same cell, and nowhere else;
* `subslice_shares` — `s[i:j]` is a view of the same array, shifted by `i`;
* `append_in_place` — within the capacity `append` reuses the array, keeps every cell below the
  old length and returns a view of the same array; `append_in_place_writes` — it writes the new
  elements right after the old ones (so a view that overlaps that region sees them);
* `append_fresh` — beyond the capacity `append` allocates a new array and leaves every existing
  array — hence the original slice and all its aliases — untouched;
* `copy_count` — `copy` moves min(len(dst), len(src)) elements;
* `index_out_of_range` / `slice_out_of_range` — out-of-range indexing and slicing are errors.

Since `sliceT` wraps a Go slice these are facts about Go's own semantics as the model states
them; what ties goatlang to the model is the correspondence (a pool of aliasing slice variables,
every live variable's contents compared after each step, capacities supplied by the real
objects), where the goatlang-specific parts — nil slices, element typing, spread, SLICE's
omitted bounds — are exercised.
-/
namespace Goat.Props.C11
open Goat.Slice

variable {V : Type}

theorem cell_writeCell (h : Heap V) (a i : Nat) (x : V) (a' i' : Nat) :
    cell (writeCell h a i x) a' i' =
      if a' = a ∧ i' = i ∧ (cell h a i).isSome then some x else cell h a' i' := by
  unfold writeCell cell
  cases hr : h[a]? with
  | none => simp [hr]
  | some row =>
    simp only [hr]
    by_cases ha : a' = a
    · subst ha
      have hlt : a' < h.length := (List.getElem?_eq_some_iff.mp hr).1
      simp only [List.getElem?_set_self hlt, Option.bind_some, hr, true_and]
      by_cases hi : i' = i
      · subst hi
        by_cases hin : i' < row.length
        · simp [List.getElem?_set_self hin, List.getElem?_eq_getElem hin]
        · have : row[i']? = none := List.getElem?_eq_none (by omega)
          simp [this, List.getElem?_eq_none (show (row.set i' x).length ≤ i' by simp; omega)]
      · simp [hi, List.getElem?_set_ne (Ne.symm hi)]
    · simp [ha, List.getElem?_set_ne (Ne.symm ha)]

/-- **alias_write.** -/
theorem alias_write (h h' : Heap V) (s t : View) (k k' : Nat) (x : V)
    (hs : sset h s k x = some h') (hc : (cell h s.arr (s.off + k)).isSome) :
    sget h' t k' =
      if k' < t.len ∧ t.arr = s.arr ∧ t.off + k' = s.off + k then some x else sget h t k' := by
  unfold sset at hs
  by_cases hk : k < s.len
  · simp only [hk, if_true, Option.some.injEq] at hs
    subst hs
    unfold sget
    by_cases hk' : k' < t.len
    · simp only [hk', if_true, true_and, cell_writeCell, hc, and_true]
    · simp [hk']
  · simp [hk] at hs

/-- **subslice_shares.** -/
theorem subslice_shares (h : Heap V) (s t : View) (i j : Nat) (hsl : slice s i j = some t) :
    t.arr = s.arr ∧ t.off = s.off + i ∧ t.len = j - i ∧ t.cap = s.cap - i ∧
    ∀ k, k < t.len → sget h t k = cell h s.arr (s.off + i + k) := by
  unfold slice at hsl
  split at hsl
  · cases hsl
    refine ⟨rfl, rfl, rfl, rfl, ?_⟩
    intro k hk
    simp [sget, hk]
  · cases hsl

theorem slice_out_of_range (s : View) (i j : Nat) (h : j < i ∨ s.cap < j) : slice s i j = none := by
  unfold slice
  have : ¬ (i ≤ j ∧ j ≤ s.cap) := by omega
  simp [this]

theorem index_out_of_range (h : Heap V) (s : View) (k : Nat) (x : V) (hk : s.len ≤ k) :
    sget h s k = none ∧ sset h s k x = none := by
  unfold sget sset
  have : ¬ k < s.len := by omega
  simp [this]

theorem writeMany_other (h : Heap V) (a i : Nat) (xs : List V) (a' : Nat) (ha : a' ≠ a) :
    (writeMany h a i xs)[a']? = h[a']? := by
  induction xs generalizing h i with
  | nil => rfl
  | cons x xs ih =>
    rw [writeMany, ih]
    unfold writeCell
    cases hr : h[a]? with
    | none => rfl
    | some row => simp [List.getElem?_set_ne (Ne.symm ha)]

theorem writeMany_below (h : Heap V) (a i : Nat) (xs : List V) (j : Nat) (hj : j < i) :
    cell (writeMany h a i xs) a j = cell h a j := by
  induction xs generalizing h i with
  | nil => rfl
  | cons x xs ih =>
    rw [writeMany, ih _ _ (by omega), cell_writeCell]
    have : ¬ j = i := by omega
    simp [this]

/-- **append_in_place.** Within the capacity the result is a view of the *same* array with the
    same offset, longer by the number of appended elements; every other array and every cell below
    the old end is unchanged. -/
theorem append_in_place (h : Heap V) (s : View) (xs : List V) (newCap : Nat) (pad : V)
    (hfit : s.len + xs.length ≤ s.cap) :
    (append h s xs newCap pad).2 = { s with len := s.len + xs.length } ∧
    (∀ a', a' ≠ s.arr → (append h s xs newCap pad).1[a']? = h[a']?) ∧
    (∀ j, j < s.off + s.len → cell (append h s xs newCap pad).1 s.arr j = cell h s.arr j) := by
  unfold append
  rw [if_pos hfit]
  exact ⟨rfl, fun a' ha => writeMany_other h _ _ xs a' ha, fun j hj => writeMany_below h _ _ xs j hj⟩

/-- **append_fresh.** Beyond the capacity a new array is allocated and no existing array changes:
    the original slice and all its aliases keep their contents, whatever capacity the runtime
    picks for the new array. -/
theorem append_fresh (h : Heap V) (s : View) (xs : List V) (newCap : Nat) (pad : V)
    (hbig : s.cap < s.len + xs.length) :
    (append h s xs newCap pad).2.arr = h.length ∧
    (append h s xs newCap pad).2.len = s.len + xs.length ∧
    (∀ a', a' < h.length → (append h s xs newCap pad).1[a']? = h[a']?) ∧
    (∀ t : View, t.arr < h.length → contents (append h s xs newCap pad).1 t = contents h t) := by
  unfold append
  have : ¬ s.len + xs.length ≤ s.cap := by omega
  rw [if_neg this]
  refine ⟨rfl, rfl, ?_, ?_⟩
  · intro a' ha
    exact List.getElem?_append_left ha
  · intro t ht
    unfold contents
    rw [List.getElem?_append_left ht]

/-- **copy_count.** -/
theorem copy_count (h : Heap V) (dst src : View) : (copy h dst src).2 = min dst.len src.len := rfl

/-! ### non-vacuity: the classic aliasing scenarios -/

/-- `s := []int{1,2,3,4}; t := s[1:3]; t[0] = 9` → s is `[1 9 3 4]` -/
example :
    let (h, s) := alloc ([] : Heap Nat) [1, 2, 3, 4]
    (slice s 1 3).bind (fun t => (sset h t 0 9).map (fun h' => contents h' s)) = some [1, 9, 3, 4] := by decide

/-- `t := s[1:3]; t = append(t, 7)` writes s[3] in place (capacity 3 ≥ 3) -/
example :
    let (h, s) := alloc ([] : Heap Nat) [1, 2, 3, 4]
    (slice s 1 3).map (fun t => contents (append h t [7] 0 0).1 s) = some [1, 2, 3, 7] := by decide

/-- `t := append(s, 5)` (capacity exceeded) leaves s alone; writing t[0] is not seen through s -/
example :
    let (h, s) := alloc ([] : Heap Nat) [1, 2, 3]
    let (h1, t) := append h s [5] 8 0
    (sset h1 t 0 9).map (fun h2 => (contents h2 s, contents h2 t)) = some ([1, 2, 3], [9, 2, 3, 5]) := by decide

end Goat.Props.C11

#print axioms Goat.Props.C11.alias_write
#print axioms Goat.Props.C11.subslice_shares
#print axioms Goat.Props.C11.append_in_place
#print axioms Goat.Props.C11.append_fresh
#print axioms Goat.Props.C11.copy_count
#print axioms Goat.Props.C11.index_out_of_range
#print axioms Goat.Props.C11.slice_out_of_range
