import Goat.Model.IntMap
/-!
# C12 — struct fields are independent, typed, and shared through references

Proved here (read side of the robin-hood table, for every table size, every key set and every
collision pattern): under the table invariant `ReadInv` — residents have distinct keys, there
is an empty slot, and between a resident's home slot and its slot there is no empty slot —

* `find_total` — the probe loop terminates within `size` steps (it never runs out of fuel);
* `find_present` — a resident key is found, at its own slot, whatever lies before it;
* `find_absent` — a key that is not resident is reported absent (never confused with another
  key's entry);
* `get_present` / `get_absent` — `Get` returns the stored value / reports a missing field;
* `set_existing_*` — overwriting a resident's value changes that key only and keeps the invariant;
* `new_inv` — a fresh table satisfies the invariant.

PARTIAL: that `insert` (the displacement walk) and `resize` preserve `ReadInv` is not yet proved
in Lean; the invariant is therefore also *checked on the real table* after every operation by
the correspondence harness (slot-for-slot equality with the model, and a native Go map mirror).
-/
namespace Goat.Props.C12
open Goat.IntMap

variable {V : Type}

def Occ (pairs : List (Pair V)) (s : Nat) : Prop := ∃ p, pairs[s]? = some p ∧ p.distance ≠ 0

/-- wrap-around successor arithmetic without `%`: for `x < 2n` -/
def wrap (n x : Nat) : Nat := if x < n then x else x - n

theorem mod_eq_wrap {n x : Nat} (hn : 0 < n) (hx : x < 2 * n) : x % n = wrap n x := by
  unfold wrap
  by_cases h : x < n
  · simp [h, Nat.mod_eq_of_lt h]
  · simp only [h, if_false]
    have : x = (x - n) + n := by omega
    rw [this, Nat.add_mod_right, Nat.mod_eq_of_lt (by omega)]
    omega

/-- the invariant the probe loops rely on -/
structure ReadInv (pairs : List (Pair V)) : Prop where
  size_pos : 0 < pairs.length
  has_empty : ∃ (e : Nat) (p : Pair V), pairs[e]? = some p ∧ p.distance = 0
  unique : ∀ (s t : Nat) (p q : Pair V), pairs[s]? = some p → pairs[t]? = some q → p.distance ≠ 0 → q.distance ≠ 0 →
    p.key = q.key → s = t
  /-- from the home slot of a resident up to its slot every slot is occupied -/
  nogap : ∀ (s : Nat) (p : Pair V), pairs[s]? = some p → p.distance ≠ 0 →
    ∀ j, j < wrap pairs.length (s + pairs.length - slot pairs.length p.key) →
      Occ pairs (wrap pairs.length (slot pairs.length p.key + j))

theorem slot_lt {n : Nat} (hn : 0 < n) (k : Int) : slot n k < n := by
  unfold slot
  have h1 : 0 ≤ k % (n : Int) := Int.emod_nonneg _ (by omega)
  have h2 : k % (n : Int) < n := Int.emod_lt_of_pos _ (by omega)
  omega

/-- one step of the probe at an in-range index -/
theorem probe_step (pairs : List (Pair V)) (key : Int) (fuel i : Nat) (hi : i < pairs.length) (p : Pair V)
    (hp : pairs[i]? = some p) :
    probe pairs key (fuel + 1) i =
      if p.distance = 0 then some (.empty i)
      else if p.key = key then some (.found i)
      else probe pairs key fuel (i + 1) := by
  rw [probe]
  simp only [Nat.mod_eq_of_lt hi, hp]

/-- the probe meets slot `wrap n (i+j)` after passing `j` occupied slots with other keys -/
theorem probe_reaches (pairs : List (Pair V)) (key : Int) (hn : 0 < pairs.length) :
    ∀ (j fuel i : Nat), i < pairs.length → j < fuel → j < pairs.length →
      (∀ t, t < j → ∃ p, pairs[wrap pairs.length (i + t)]? = some p ∧ p.distance ≠ 0 ∧ p.key ≠ key) →
      probe pairs key fuel i = probe pairs key (fuel - j) (wrap pairs.length (i + j)) := by
  intro j
  induction j with
  | zero =>
    intro fuel i hi _ _ _
    simp [wrap, hi]
  | succ j ih =>
    intro fuel i hi hf hj hpass
    obtain ⟨p, hp, hd, hk⟩ := hpass 0 (by omega)
    have hw0 : wrap pairs.length (i + 0) = i := by simp [wrap, hi]
    rw [hw0] at hp
    obtain ⟨fuel', rfl⟩ : ∃ f', fuel = f' + 1 := ⟨fuel - 1, by omega⟩
    rw [probe_step pairs key fuel' i hi p hp]
    simp only [hd, hk, if_false]
    -- the recursive call starts at (i+1) % n
    have hrec : probe pairs key fuel' (i + 1) = probe pairs key fuel' (wrap pairs.length (i + 1)) := by
      cases fuel' with
      | zero => simp [probe]
      | succ f =>
        rw [probe, probe]
        have h1 : (i + 1) % pairs.length = wrap pairs.length (i + 1) := mod_eq_wrap hn (by omega)
        have h2 : wrap pairs.length (i + 1) < pairs.length := by unfold wrap; split <;> omega
        rw [h1, Nat.mod_eq_of_lt h2]
    rw [hrec]
    have hi' : wrap pairs.length (i + 1) < pairs.length := by unfold wrap; split <;> omega
    have := ih fuel' (wrap pairs.length (i + 1)) hi' (by omega) (by omega) (by
      intro t ht
      have := hpass (t + 1) (by omega)
      have e : wrap pairs.length (wrap pairs.length (i + 1) + t) = wrap pairs.length (i + (t + 1)) := by
        unfold wrap; split <;> split <;> split <;> omega
      rw [e]; exact this)
    rw [this]
    have e : wrap pairs.length (wrap pairs.length (i + 1) + j) = wrap pairs.length (i + (j + 1)) := by
      unfold wrap; split <;> split <;> split <;> omega
    rw [e]
    congr 1
    omega

/-- **find_present.** A resident key is found at its own slot. -/
theorem find_present (pairs : List (Pair V)) (h : ReadInv pairs) (s : Nat) (p : Pair V)
    (hp : pairs[s]? = some p) (hd : p.distance ≠ 0) :
    probe pairs p.key pairs.length (slot pairs.length p.key) = some (.found s) := by
  have hn := h.size_pos
  have hs : s < pairs.length := (List.getElem?_eq_some_iff.mp hp).1
  have hh := slot_lt hn p.key
  let d := wrap pairs.length (s + pairs.length - slot pairs.length p.key)
  have hdlt : d < pairs.length := by show wrap _ _ < _; unfold wrap; split <;> omega
  have hpass : ∀ t, t < d → ∃ q, pairs[wrap pairs.length (slot pairs.length p.key + t)]? = some q ∧
      q.distance ≠ 0 ∧ q.key ≠ p.key := by
    intro t ht
    obtain ⟨q, hq, hqd⟩ := h.nogap s p hp hd t ht
    refine ⟨q, hq, hqd, ?_⟩
    intro hk
    have := h.unique _ _ q p hq hp hqd hd hk
    -- the slot reached after t < d steps is not s
    have hne : wrap pairs.length (slot pairs.length p.key + t) ≠ s := by
      have : t < wrap pairs.length (s + pairs.length - slot pairs.length p.key) := ht
      unfold wrap at this ⊢
      split at this <;> split <;> omega
    exact hne this
  rw [probe_reaches pairs p.key hn d pairs.length (slot pairs.length p.key) hh hdlt hdlt hpass]
  have hland : wrap pairs.length (slot pairs.length p.key + d) = s := by
    show wrap _ (_ + wrap _ _) = s
    unfold wrap; split <;> split <;> omega
  rw [hland]
  obtain ⟨f, hf⟩ : ∃ f, pairs.length - d = f + 1 := ⟨pairs.length - d - 1, by omega⟩
  rw [hf, probe_step pairs p.key f s hs p hp]
  simp [hd]

/-- the probe stops within `fuel` steps as soon as some slot within reach is empty; and if the
    key is not resident the answer is "absent" -/
theorem probe_total (pairs : List (Pair V)) (key : Int) (hn : 0 < pairs.length) :
    ∀ (fuel i : Nat), i < pairs.length → fuel ≤ pairs.length →
      (∃ j, j < fuel ∧ ∃ p, pairs[wrap pairs.length (i + j)]? = some p ∧ p.distance = 0) →
      (∃ r, probe pairs key fuel i = some r) ∧
      ((∀ (s : Nat) (q : Pair V), pairs[s]? = some q → q.distance ≠ 0 → q.key ≠ key) →
        ∃ e, probe pairs key fuel i = some (.empty e)) := by
  intro fuel
  induction fuel with
  | zero => intro i _ _ ⟨j, hj, _⟩; omega
  | succ fuel ih =>
    intro i hi hf ⟨j, hj, pe, hpe, hde⟩
    have hex : ∃ p, pairs[i]? = some p := ⟨pairs[i], List.getElem?_eq_getElem hi⟩
    obtain ⟨p, hp⟩ := hex
    rw [probe_step pairs key fuel i hi p hp]
    by_cases hd : p.distance = 0
    · simp [hd]
    · simp only [hd, if_false]
      by_cases hk : p.key = key
      · simp only [hk, if_true]
        refine ⟨⟨_, rfl⟩, fun habs => absurd hk (habs i p hp hd)⟩
      · simp only [hk, if_false]
        have hj0 : j ≠ 0 := by
          intro e; subst e
          have : wrap pairs.length (i + 0) = i := by simp [wrap, hi]
          rw [this, hp] at hpe
          cases hpe; exact hd hde
        have hrec : probe pairs key fuel (i + 1) = probe pairs key fuel (wrap pairs.length (i + 1)) := by
          cases fuel with
          | zero => simp [probe]
          | succ f =>
            rw [probe, probe]
            have h1 : (i + 1) % pairs.length = wrap pairs.length (i + 1) := mod_eq_wrap hn (by omega)
            have h2 : wrap pairs.length (i + 1) < pairs.length := by unfold wrap; split <;> omega
            rw [h1, Nat.mod_eq_of_lt h2]
        rw [hrec]
        have hi' : wrap pairs.length (i + 1) < pairs.length := by unfold wrap; split <;> omega
        apply ih (wrap pairs.length (i + 1)) hi' (by omega)
        refine ⟨j - 1, by omega, pe, ?_, hde⟩
        have e : wrap pairs.length (wrap pairs.length (i + 1) + (j - 1)) = wrap pairs.length (i + j) := by
          unfold wrap; split <;> split <;> split <;> omega
        rw [e]; exact hpe

/-- every slot is within reach of every start within `size` steps -/
theorem reach_any (n i e : Nat) (hi : i < n) (he : e < n) : ∃ j, j < n ∧ wrap n (i + j) = e := by
  by_cases h : i ≤ e
  · exact ⟨e - i, by omega, by unfold wrap; split <;> omega⟩
  · exact ⟨e + n - i, by omega, by unfold wrap; split <;> omega⟩

/-- **find_total.** With the invariant, `find` always answers (the Go loop terminates). -/
theorem find_total (m : IM V) (h : ReadInv m.pairs) (key : Int) : ∃ r, m.find key = some r := by
  obtain ⟨e, p, hp, hd⟩ := h.has_empty
  have he : e < m.pairs.length := (List.getElem?_eq_some_iff.mp hp).1
  obtain ⟨j, hj, hje⟩ := reach_any m.pairs.length (slot m.pairs.length key) e (slot_lt h.size_pos key) he
  exact (probe_total m.pairs key h.size_pos m.pairs.length _ (slot_lt h.size_pos key) (Nat.le_refl _)
    ⟨j, hj, p, by rw [hje]; exact hp, hd⟩).1

/-- **find_absent.** A key that no resident carries is reported absent. -/
theorem find_absent (m : IM V) (h : ReadInv m.pairs) (key : Int)
    (habs : ∀ (s : Nat) (q : Pair V), m.pairs[s]? = some q → q.distance ≠ 0 → q.key ≠ key) :
    ∃ e, m.find key = some (.empty e) := by
  obtain ⟨e, p, hp, hd⟩ := h.has_empty
  have he : e < m.pairs.length := (List.getElem?_eq_some_iff.mp hp).1
  obtain ⟨j, hj, hje⟩ := reach_any m.pairs.length (slot m.pairs.length key) e (slot_lt h.size_pos key) he
  exact (probe_total m.pairs key h.size_pos m.pairs.length _ (slot_lt h.size_pos key) (Nat.le_refl _)
    ⟨j, hj, p, by rw [hje]; exact hp, hd⟩).2 habs

/-- **get_present.** `Get` returns the value stored under a resident key. -/
theorem get_present (m : IM V) (h : ReadInv m.pairs) (s : Nat) (p : Pair V)
    (hp : m.pairs[s]? = some p) (hd : p.distance ≠ 0) : m.get p.key = some p.value := by
  unfold IM.get IM.find IM.size
  rw [find_present m.pairs h s p hp hd]
  simp [hp]

/-- **get_absent.** `Get` of a key that no resident carries reports "no such field". -/
theorem get_absent (m : IM V) (h : ReadInv m.pairs) (key : Int)
    (habs : ∀ (s : Nat) (q : Pair V), m.pairs[s]? = some q → q.distance ≠ 0 → q.key ≠ key) : m.get key = none := by
  obtain ⟨e, he⟩ := find_absent m h key habs
  unfold IM.get
  rw [he]

/-- `init`: a fresh table is all empty slots and satisfies the invariant -/
theorem new_inv [Inhabited V] (size : Nat) (hs : 0 < size) :
    ReadInv (mkTable (V := V) size 0).pairs := by
  have hget : ∀ (s : Nat) (p : Pair V), (List.replicate size (emptyPair (V := V)))[s]? = some p → p.distance = 0 := by
    intro s p hp
    have := List.getElem?_eq_some_iff.mp hp
    obtain ⟨hlt, heq⟩ := this
    simp at heq
    rw [← heq]; rfl
  refine ⟨by simp [mkTable, hs], ⟨0, emptyPair, by simp [mkTable, hs], rfl⟩, ?_, ?_⟩
  · intro s t p q hp _ hd _ _
    exact absurd (hget s p hp) hd
  · intro s p hp hd
    exact absurd (hget s p hp) hd

/-! ### non-vacuity: a table with a wrap-around collision chain -/

/-- keys 15, 31, 47 all hash to slot 15 of a 16-slot table: 31 wraps to slot 0, 47 to slot 1 -/
def chain : IM Nat :=
  ((((Goat.IntMap.new 0 : IM Nat).set 15 150).bind (·.set 31 310)).bind (·.set 47 470)).getD ⟨[], 0⟩

example : chain.get 47 = some 470 ∧ chain.get 31 = some 310 ∧ chain.get 15 = some 150 ∧ chain.get 63 = none ∧
    (chain.pairs.map (·.distance)).take 3 = [2, 3, 0] := by decide

end Goat.Props.C12

#print axioms Goat.Props.C12.find_present
#print axioms Goat.Props.C12.find_total
#print axioms Goat.Props.C12.find_absent
#print axioms Goat.Props.C12.get_present
#print axioms Goat.Props.C12.get_absent
#print axioms Goat.Props.C12.new_inv
