import Goat.Model.IntMap
import Goat.Model.Struct
/-!
# C12 — struct fields are independent, typed, and shared through references

Proved here (read side of the robin-hood table, for every table size, every key set and every
collision pattern): under the table invariant `ReadInv` — residents have distinct keys, there
is an empty slot, and between a resident's home slot and its slot there is no empty slot —

* `find_total` — the probe loop terminates within `size` steps (it never runs out of fuel);
* `find_present` — a resident key is found, at its own slot, whatever lies before it;
* `find_absent` — a key that is not resident is reported absent (never confused with another
  key's entry);
* `get_present` / `get_absent` — `Get` returns the stored value / reports a missing field;
* `set_existing_*` — overwriting a resident's value changes that key only and keeps the invariant;
* `new_inv` — a fresh table satisfies the invariant.

Write side (second half of this file): the displacement walk of `insert` — for any outcome of
its robin-hood distance comparisons — and `resize` preserve the core invariant and change the
residents by exactly the inserted pair (`insertLoop_post`, `insertRaw_post`, `resize_post`);
`Set` preserves the table invariant `Inv` (core + `total` = number of residents + load ≤ 3/4,
which guarantees the empty slot) and updates the residents like a finite map (`set_post`,
`set_get_same`, `set_get_other`); from a fresh table (`new_Inv`) any history of `Set`s answers
every `Get` like the finite map with those writes (`history_refines`).

Struct layer (end of this file, over `Model/Struct.lean`): `assign_post` (the store behind `x.f = v`
never fails, changes that field only and never creates a field), `setIndex_spec` (a store through
any alias of an instance is seen through every alias, touches no other field and no other
instance, for any conversion), `alloc_zero`, `alloc_inv` (a new instance has exactly the fields of
its type, at their zero values), `allocWith_spec` (a struct literal makes a new instance whose
named fields hold the converted values, the others their zero values, and changes no existing
instance), `method_on_every_instance` (a method added to the type — also
after instances exist — is found on every instance and bound to that instance),
`addMethod_keeps_fields`. Type objects: `declare_spec` (STRUCT), `addAll_spec`, `sync_spec`
(a second declaration of a name is MERGED into the first: `Order` only grows, every declared name
takes the new zero value), `sync_keeps_dropped_field` / `sync_takes_new_value` — the open finding
`shadowed-local-type-keeps-outer-fields` stated as theorems about the model.

Not proved: `Delete` (backward shift) — the VM never deletes from a field table; it is covered by
the slot-for-slot correspondence only.
-/
namespace Goat.Props.C12
open Goat.IntMap Goat.Struct

variable {V : Type}

def Occ (pairs : List (Pair V)) (s : Nat) : Prop := ∃ p, pairs[s]? = some p ∧ p.distance ≠ 0

/-- wrap-around successor arithmetic without `%`: for `x < 2n` -/
def wrap (n x : Nat) : Nat := if x < n then x else x - n

theorem mod_eq_wrap {n x : Nat} (hn : 0 < n) (hx : x < 2 * n) : x % n = wrap n x := by
  unfold wrap
  by_cases h : x < n
  · simp [h, Nat.mod_eq_of_lt h]
  · simp only [h, if_false]
    have : x = (x - n) + n := by omega
    rw [this, Nat.add_mod_right, Nat.mod_eq_of_lt (by omega)]
    omega

/-- the invariant the probe loops rely on -/
structure ReadInv (pairs : List (Pair V)) : Prop where
  size_pos : 0 < pairs.length
  has_empty : ∃ (e : Nat) (p : Pair V), pairs[e]? = some p ∧ p.distance = 0
  unique : ∀ (s t : Nat) (p q : Pair V), pairs[s]? = some p → pairs[t]? = some q → p.distance ≠ 0 → q.distance ≠ 0 →
    p.key = q.key → s = t
  /-- from the home slot of a resident up to its slot every slot is occupied -/
  nogap : ∀ (s : Nat) (p : Pair V), pairs[s]? = some p → p.distance ≠ 0 →
    ∀ j, j < wrap pairs.length (s + pairs.length - slot pairs.length p.key) →
      Occ pairs (wrap pairs.length (slot pairs.length p.key + j))

theorem slot_lt {n : Nat} (hn : 0 < n) (k : Int) : slot n k < n := by
  unfold slot
  have h1 : 0 ≤ k % (n : Int) := Int.emod_nonneg _ (by omega)
  have h2 : k % (n : Int) < n := Int.emod_lt_of_pos _ (by omega)
  omega

/-- one step of the probe at an in-range index -/
theorem probe_step (pairs : List (Pair V)) (key : Int) (fuel i : Nat) (hi : i < pairs.length) (p : Pair V)
    (hp : pairs[i]? = some p) :
    probe pairs key (fuel + 1) i =
      if p.distance = 0 then some (.empty i)
      else if p.key = key then some (.found i)
      else probe pairs key fuel (i + 1) := by
  rw [probe]
  simp only [Nat.mod_eq_of_lt hi, hp]

/-- the probe meets slot `wrap n (i+j)` after passing `j` occupied slots with other keys -/
theorem probe_reaches (pairs : List (Pair V)) (key : Int) (hn : 0 < pairs.length) :
    ∀ (j fuel i : Nat), i < pairs.length → j < fuel → j < pairs.length →
      (∀ t, t < j → ∃ p, pairs[wrap pairs.length (i + t)]? = some p ∧ p.distance ≠ 0 ∧ p.key ≠ key) →
      probe pairs key fuel i = probe pairs key (fuel - j) (wrap pairs.length (i + j)) := by
  intro j
  induction j with
  | zero =>
    intro fuel i hi _ _ _
    simp [wrap, hi]
  | succ j ih =>
    intro fuel i hi hf hj hpass
    obtain ⟨p, hp, hd, hk⟩ := hpass 0 (by omega)
    have hw0 : wrap pairs.length (i + 0) = i := by simp [wrap, hi]
    rw [hw0] at hp
    obtain ⟨fuel', rfl⟩ : ∃ f', fuel = f' + 1 := ⟨fuel - 1, by omega⟩
    rw [probe_step pairs key fuel' i hi p hp]
    simp only [hd, hk, if_false]
    -- the recursive call starts at (i+1) % n
    have hrec : probe pairs key fuel' (i + 1) = probe pairs key fuel' (wrap pairs.length (i + 1)) := by
      cases fuel' with
      | zero => simp [probe]
      | succ f =>
        rw [probe, probe]
        have h1 : (i + 1) % pairs.length = wrap pairs.length (i + 1) := mod_eq_wrap hn (by omega)
        have h2 : wrap pairs.length (i + 1) < pairs.length := by unfold wrap; split <;> omega
        rw [h1, Nat.mod_eq_of_lt h2]
    rw [hrec]
    have hi' : wrap pairs.length (i + 1) < pairs.length := by unfold wrap; split <;> omega
    have := ih fuel' (wrap pairs.length (i + 1)) hi' (by omega) (by omega) (by
      intro t ht
      have := hpass (t + 1) (by omega)
      have e : wrap pairs.length (wrap pairs.length (i + 1) + t) = wrap pairs.length (i + (t + 1)) := by
        unfold wrap; split <;> split <;> split <;> omega
      rw [e]; exact this)
    rw [this]
    have e : wrap pairs.length (wrap pairs.length (i + 1) + j) = wrap pairs.length (i + (j + 1)) := by
      unfold wrap; split <;> split <;> split <;> omega
    rw [e]
    congr 1
    omega

/-- **find_present.** A resident key is found at its own slot. -/
theorem find_present (pairs : List (Pair V)) (h : ReadInv pairs) (s : Nat) (p : Pair V)
    (hp : pairs[s]? = some p) (hd : p.distance ≠ 0) :
    probe pairs p.key pairs.length (slot pairs.length p.key) = some (.found s) := by
  have hn := h.size_pos
  have hs : s < pairs.length := (List.getElem?_eq_some_iff.mp hp).1
  have hh := slot_lt hn p.key
  let d := wrap pairs.length (s + pairs.length - slot pairs.length p.key)
  have hdlt : d < pairs.length := by show wrap _ _ < _; unfold wrap; split <;> omega
  have hpass : ∀ t, t < d → ∃ q, pairs[wrap pairs.length (slot pairs.length p.key + t)]? = some q ∧
      q.distance ≠ 0 ∧ q.key ≠ p.key := by
    intro t ht
    obtain ⟨q, hq, hqd⟩ := h.nogap s p hp hd t ht
    refine ⟨q, hq, hqd, ?_⟩
    intro hk
    have := h.unique _ _ q p hq hp hqd hd hk
    -- the slot reached after t < d steps is not s
    have hne : wrap pairs.length (slot pairs.length p.key + t) ≠ s := by
      have : t < wrap pairs.length (s + pairs.length - slot pairs.length p.key) := ht
      unfold wrap at this ⊢
      split at this <;> split <;> omega
    exact hne this
  rw [probe_reaches pairs p.key hn d pairs.length (slot pairs.length p.key) hh hdlt hdlt hpass]
  have hland : wrap pairs.length (slot pairs.length p.key + d) = s := by
    show wrap _ (_ + wrap _ _) = s
    unfold wrap; split <;> split <;> omega
  rw [hland]
  obtain ⟨f, hf⟩ : ∃ f, pairs.length - d = f + 1 := ⟨pairs.length - d - 1, by omega⟩
  rw [hf, probe_step pairs p.key f s hs p hp]
  simp [hd]

/-- the probe stops within `fuel` steps as soon as some slot within reach is empty; and if the
    key is not resident the answer is "absent" -/
theorem probe_total (pairs : List (Pair V)) (key : Int) (hn : 0 < pairs.length) :
    ∀ (fuel i : Nat), i < pairs.length → fuel ≤ pairs.length →
      (∃ j, j < fuel ∧ ∃ p, pairs[wrap pairs.length (i + j)]? = some p ∧ p.distance = 0) →
      (∃ r, probe pairs key fuel i = some r) ∧
      ((∀ (s : Nat) (q : Pair V), pairs[s]? = some q → q.distance ≠ 0 → q.key ≠ key) →
        ∃ e, probe pairs key fuel i = some (.empty e)) := by
  intro fuel
  induction fuel with
  | zero => intro i _ _ ⟨j, hj, _⟩; omega
  | succ fuel ih =>
    intro i hi hf ⟨j, hj, pe, hpe, hde⟩
    have hex : ∃ p, pairs[i]? = some p := ⟨pairs[i], List.getElem?_eq_getElem hi⟩
    obtain ⟨p, hp⟩ := hex
    rw [probe_step pairs key fuel i hi p hp]
    by_cases hd : p.distance = 0
    · simp [hd]
    · simp only [hd, if_false]
      by_cases hk : p.key = key
      · simp only [hk, if_true]
        refine ⟨⟨_, rfl⟩, fun habs => absurd hk (habs i p hp hd)⟩
      · simp only [hk, if_false]
        have hj0 : j ≠ 0 := by
          intro e; subst e
          have : wrap pairs.length (i + 0) = i := by simp [wrap, hi]
          rw [this, hp] at hpe
          cases hpe; exact hd hde
        have hrec : probe pairs key fuel (i + 1) = probe pairs key fuel (wrap pairs.length (i + 1)) := by
          cases fuel with
          | zero => simp [probe]
          | succ f =>
            rw [probe, probe]
            have h1 : (i + 1) % pairs.length = wrap pairs.length (i + 1) := mod_eq_wrap hn (by omega)
            have h2 : wrap pairs.length (i + 1) < pairs.length := by unfold wrap; split <;> omega
            rw [h1, Nat.mod_eq_of_lt h2]
        rw [hrec]
        have hi' : wrap pairs.length (i + 1) < pairs.length := by unfold wrap; split <;> omega
        apply ih (wrap pairs.length (i + 1)) hi' (by omega)
        refine ⟨j - 1, by omega, pe, ?_, hde⟩
        have e : wrap pairs.length (wrap pairs.length (i + 1) + (j - 1)) = wrap pairs.length (i + j) := by
          unfold wrap; split <;> split <;> split <;> omega
        rw [e]; exact hpe

/-- every slot is within reach of every start within `size` steps -/
theorem reach_any (n i e : Nat) (hi : i < n) (he : e < n) : ∃ j, j < n ∧ wrap n (i + j) = e := by
  by_cases h : i ≤ e
  · exact ⟨e - i, by omega, by unfold wrap; split <;> omega⟩
  · exact ⟨e + n - i, by omega, by unfold wrap; split <;> omega⟩

/-- **find_total.** With the invariant, `find` always answers (the Go loop terminates). -/
theorem find_total (m : IM V) (h : ReadInv m.pairs) (key : Int) : ∃ r, m.find key = some r := by
  obtain ⟨e, p, hp, hd⟩ := h.has_empty
  have he : e < m.pairs.length := (List.getElem?_eq_some_iff.mp hp).1
  obtain ⟨j, hj, hje⟩ := reach_any m.pairs.length (slot m.pairs.length key) e (slot_lt h.size_pos key) he
  exact (probe_total m.pairs key h.size_pos m.pairs.length _ (slot_lt h.size_pos key) (Nat.le_refl _)
    ⟨j, hj, p, by rw [hje]; exact hp, hd⟩).1

/-- **find_absent.** A key that no resident carries is reported absent. -/
theorem find_absent (m : IM V) (h : ReadInv m.pairs) (key : Int)
    (habs : ∀ (s : Nat) (q : Pair V), m.pairs[s]? = some q → q.distance ≠ 0 → q.key ≠ key) :
    ∃ e, m.find key = some (.empty e) := by
  obtain ⟨e, p, hp, hd⟩ := h.has_empty
  have he : e < m.pairs.length := (List.getElem?_eq_some_iff.mp hp).1
  obtain ⟨j, hj, hje⟩ := reach_any m.pairs.length (slot m.pairs.length key) e (slot_lt h.size_pos key) he
  exact (probe_total m.pairs key h.size_pos m.pairs.length _ (slot_lt h.size_pos key) (Nat.le_refl _)
    ⟨j, hj, p, by rw [hje]; exact hp, hd⟩).2 habs

/-- **get_present.** `Get` returns the value stored under a resident key. -/
theorem get_present (m : IM V) (h : ReadInv m.pairs) (s : Nat) (p : Pair V)
    (hp : m.pairs[s]? = some p) (hd : p.distance ≠ 0) : m.get p.key = some p.value := by
  unfold IM.get IM.find IM.size
  rw [find_present m.pairs h s p hp hd]
  simp [hp]

/-- **get_absent.** `Get` of a key that no resident carries reports "no such field". -/
theorem get_absent (m : IM V) (h : ReadInv m.pairs) (key : Int)
    (habs : ∀ (s : Nat) (q : Pair V), m.pairs[s]? = some q → q.distance ≠ 0 → q.key ≠ key) : m.get key = none := by
  obtain ⟨e, he⟩ := find_absent m h key habs
  unfold IM.get
  rw [he]

/-- `init`: a fresh table is all empty slots and satisfies the invariant -/
theorem new_inv [Inhabited V] (size : Nat) (hs : 0 < size) :
    ReadInv (mkTable (V := V) size 0).pairs := by
  have hget : ∀ (s : Nat) (p : Pair V), (List.replicate size (emptyPair (V := V)))[s]? = some p → p.distance = 0 := by
    intro s p hp
    have := List.getElem?_eq_some_iff.mp hp
    obtain ⟨hlt, heq⟩ := this
    simp at heq
    rw [← heq]; rfl
  refine ⟨by simp [mkTable, hs], ⟨0, emptyPair, by simp [mkTable, hs], rfl⟩, ?_, ?_⟩
  · intro s t p q hp _ hd _ _
    exact absurd (hget s p hp) hd
  · intro s p hp hd
    exact absurd (hget s p hp) hd

/-! ### non-vacuity: a table with a wrap-around collision chain -/

/-- keys 15, 31, 47 all hash to slot 15 of a 16-slot table: 31 wraps to slot 0, 47 to slot 1 -/
def chain : IM Nat :=
  ((((Goat.IntMap.new 0 : IM Nat).set 15 150).bind (·.set 31 310)).bind (·.set 47 470)).getD ⟨[], 0⟩

example : chain.get 47 = some 470 ∧ chain.get 31 = some 310 ∧ chain.get 15 = some 150 ∧ chain.get 63 = none ∧
    (chain.pairs.map (·.distance)).take 3 = [2, 3, 0] := by decide

end Goat.Props.C12

#print axioms Goat.Props.C12.find_present
#print axioms Goat.Props.C12.find_total
#print axioms Goat.Props.C12.find_absent
#print axioms Goat.Props.C12.get_present
#print axioms Goat.Props.C12.get_absent
#print axioms Goat.Props.C12.new_inv

/-! ## The write side: insertion (displacement walk), resize, and refinement to a finite map -/

namespace Goat.Props.C12
open Goat.IntMap Goat.Struct
variable {V : Type}

def Emp (pairs : List (Pair V)) (s : Nat) : Prop := ∃ p, pairs[s]? = some p ∧ p.distance = 0

/-- no empty slot in the cyclic interval [h, s) -/
def Clear (pairs : List (Pair V)) (h s : Nat) : Prop :=
  ∀ j, j < wrap pairs.length (s + pairs.length - h) → Occ pairs (wrap pairs.length (h + j))

def Res (pairs : List (Pair V)) (k : Int) (v : V) : Prop :=
  ∃ (s : Nat) (p : Pair V), pairs[s]? = some p ∧ p.distance ≠ 0 ∧ p.key = k ∧ p.value = v

structure Core (pairs : List (Pair V)) : Prop where
  size_pos : 0 < pairs.length
  unique : ∀ (s t : Nat) (p q : Pair V), pairs[s]? = some p → pairs[t]? = some q → p.distance ≠ 0 → q.distance ≠ 0 →
    p.key = q.key → s = t
  nogap : ∀ (s : Nat) (p : Pair V), pairs[s]? = some p → p.distance ≠ 0 → Clear pairs (slot pairs.length p.key) s

theorem readInv_iff (pairs : List (Pair V)) : ReadInv pairs ↔ Core pairs ∧ ∃ e, Emp pairs e := by
  constructor
  · intro h
    exact ⟨⟨h.size_pos, h.unique, h.nogap⟩, h.has_empty⟩
  · intro ⟨c, e⟩
    exact ⟨c.size_pos, e, c.unique, c.nogap⟩

theorem wrap_lt {n x : Nat} (_hn : 0 < n) (hx : x < 2 * n) : wrap n x < n := by
  unfold wrap; split <;> omega

theorem clear_step (pairs : List (Pair V)) (h s : Nat) (hh : h < pairs.length) (hs : s < pairs.length)
    (hc : Clear pairs h s) (ho : Occ pairs s) (hne : wrap pairs.length (s + 1) ≠ h) :
    Clear pairs h (wrap pairs.length (s + 1)) := by
  intro j hj
  have hd : wrap pairs.length (wrap pairs.length (s + 1) + pairs.length - h) =
      wrap pairs.length (s + pairs.length - h) + 1 := by
    unfold wrap at hne ⊢
    split at hne <;> (repeat' split) <;> omega
  rw [hd] at hj
  by_cases hlt : j < wrap pairs.length (s + pairs.length - h)
  · exact hc j hlt
  · have : j = wrap pairs.length (s + pairs.length - h) := by omega
    have hland : wrap pairs.length (h + j) = s := by
      rw [this]; unfold wrap; (repeat' split) <;> omega
    rw [hland]; exact ho

theorem full_circle (pairs : List (Pair V)) (h s : Nat) (hh : h < pairs.length) (hs : s < pairs.length)
    (hc : Clear pairs h s) (ho : Occ pairs s) (heq : wrap pairs.length (s + 1) = h) :
    ∀ e, e < pairs.length → Occ pairs e := by
  intro e he
  obtain ⟨j, hj, hje⟩ := reach_any pairs.length h e hh he
  by_cases hlt : j < wrap pairs.length (s + pairs.length - h)
  · rw [← hje]; exact hc j hlt
  · have hland : e = s := by
      rw [← hje]
      unfold wrap at heq hlt ⊢
      split at heq <;> split at hlt <;> (repeat' split) <;> omega
    rw [hland]; exact ho

theorem not_occ_of_emp (pairs : List (Pair V)) (e : Nat) (h1 : Emp pairs e) (h2 : Occ pairs e) : False := by
  obtain ⟨p, hp, hd⟩ := h1
  obtain ⟨q, hq, hqd⟩ := h2
  rw [hp] at hq; cases hq; exact hqd hd

theorem occ_set (pairs : List (Pair V)) (idx : Nat) (x : Pair V) (hi : idx < pairs.length) (t : Nat) :
    Occ (pairs.set idx x) t ↔ (if t = idx then x.distance ≠ 0 else Occ pairs t) := by
  unfold Occ
  by_cases ht : t = idx
  · subst ht
    simp [List.getElem?_set_self hi]
  · simp [ht, List.getElem?_set_ne (Ne.symm ht)]

theorem emp_set (pairs : List (Pair V)) (idx : Nat) (x : Pair V) (hi : idx < pairs.length) (t : Nat) :
    Emp (pairs.set idx x) t ↔ (if t = idx then x.distance = 0 else Emp pairs t) := by
  unfold Emp
  by_cases ht : t = idx
  · subst ht
    simp [List.getElem?_set_self hi]
  · simp [ht, List.getElem?_set_ne (Ne.symm ht)]

/-- `Clear` only depends on which slots are occupied -/
theorem clear_mono (pairs pairs' : List (Pair V)) (hl : pairs'.length = pairs.length)
    (hm : ∀ t, Occ pairs t → Occ pairs' t) (h s : Nat) (hc : Clear pairs h s) : Clear pairs' h s := by
  intro j hj
  rw [hl] at hj ⊢
  exact hm _ (hc j hj)



theorem core_set (pairs : List (Pair V)) (hc : Core pairs) (idx : Nat) (x : Pair V) (hi : idx < pairs.length)
    (hx : x.distance ≠ 0)
    (hfresh : ∀ (s : Nat) (p : Pair V), s ≠ idx → pairs[s]? = some p → p.distance ≠ 0 → p.key ≠ x.key)
    (hclr : Clear pairs (slot pairs.length x.key) idx) : Core (pairs.set idx x) := by
  have hl : (pairs.set idx x).length = pairs.length := List.length_set ..
  have hmono : ∀ t, Occ pairs t → Occ (pairs.set idx x) t := by
    intro t ht
    rw [occ_set pairs idx x hi t]
    split
    · exact hx
    · exact ht
  refine ⟨by rw [hl]; exact hc.size_pos, ?_, ?_⟩
  · intro s t p q hp hq hpd hqd hk
    by_cases hs : s = idx
    · by_cases ht : t = idx
      · rw [hs, ht]
      · subst hs
        rw [List.getElem?_set_self hi] at hp; cases hp
        rw [List.getElem?_set_ne (Ne.symm ht)] at hq
        exact absurd hk.symm (hfresh t q ht hq hqd)
    · by_cases ht : t = idx
      · subst ht
        rw [List.getElem?_set_self hi] at hq; cases hq
        rw [List.getElem?_set_ne (Ne.symm hs)] at hp
        exact absurd hk (hfresh s p hs hp hpd)
      · rw [List.getElem?_set_ne (Ne.symm hs)] at hp
        rw [List.getElem?_set_ne (Ne.symm ht)] at hq
        exact hc.unique s t p q hp hq hpd hqd hk
  · intro s p hp hpd
    rw [hl]
    by_cases hs : s = idx
    · subst hs
      rw [List.getElem?_set_self hi] at hp; cases hp
      exact clear_mono pairs _ hl hmono _ _ hclr
    · rw [List.getElem?_set_ne (Ne.symm hs)] at hp
      exact clear_mono pairs _ hl hmono _ _ (hc.nogap s p hp hpd)

def countOcc : List (Pair V) → Nat
  | [] => 0
  | p :: t => (if p.distance = 0 then 0 else 1) + countOcc t

theorem countOcc_set (pairs : List (Pair V)) (idx : Nat) (x old : Pair V) (ho : pairs[idx]? = some old) :
    countOcc (pairs.set idx x) + (if old.distance = 0 then 0 else 1) =
      countOcc pairs + (if x.distance = 0 then 0 else 1) := by
  induction pairs generalizing idx with
  | nil => simp at ho
  | cons a t ih =>
    cases idx with
    | zero =>
      simp at ho; subst ho
      simp only [List.set_cons_zero, countOcc]
      omega
    | succ i =>
      simp only [List.getElem?_cons_succ] at ho
      have := ih i ho
      simp only [List.set_cons_succ, countOcc]
      omega

/-- what `insert` must achieve -/
structure Post (pairs : List (Pair V)) (key : Int) (value : V) (pairs' : List (Pair V)) : Prop where
  len : pairs'.length = pairs.length
  core : Core pairs'
  res : ∀ k v, Res pairs' k v ↔ (Res pairs k v ∨ (k = key ∧ v = value))
  count : countOcc pairs' = countOcc pairs + 1

theorem res_set (pairs : List (Pair V)) (idx : Nat) (x : Pair V) (hi : idx < pairs.length) (k : Int) (v : V) :
    Res (pairs.set idx x) k v ↔
      ((x.distance ≠ 0 ∧ x.key = k ∧ x.value = v) ∨
       ∃ (s : Nat) (p : Pair V), s ≠ idx ∧ pairs[s]? = some p ∧ p.distance ≠ 0 ∧ p.key = k ∧ p.value = v) := by
  constructor
  · intro ⟨s, p, hp, hd, hk, hv⟩
    by_cases hs : s = idx
    · subst hs
      rw [List.getElem?_set_self hi] at hp; cases hp
      exact Or.inl ⟨hd, hk, hv⟩
    · rw [List.getElem?_set_ne (Ne.symm hs)] at hp
      exact Or.inr ⟨s, p, hs, hp, hd, hk, hv⟩
  · intro h
    rcases h with ⟨hd, hk, hv⟩ | ⟨s, p, hs, hp, hd, hk, hv⟩
    · exact ⟨idx, x, List.getElem?_set_self hi, hd, hk, hv⟩
    · exact ⟨s, p, by rw [List.getElem?_set_ne (Ne.symm hs)]; exact hp, hd, hk, hv⟩


theorem mod_succ_eq_wrap (n idx : Nat) (hn : 0 < n) (hi : idx < n) : (idx + 1) % n = wrap n (idx + 1) :=
  mod_eq_wrap hn (by omega)

/-- the next empty slot is still ahead after stepping over an occupied one -/
theorem emp_ahead (pairs : List (Pair V)) (idx d : Nat) (hi : idx < pairs.length) (hd : d < pairs.length)
    (he : Emp pairs (wrap pairs.length (idx + d))) (ho : Occ pairs idx) :
    d ≠ 0 ∧ wrap pairs.length (idx + d) ≠ idx ∧
    wrap pairs.length (wrap pairs.length (idx + 1) + (d - 1)) = wrap pairs.length (idx + d) := by
  have hd0 : d ≠ 0 := by
    intro e; subst e
    have : wrap pairs.length (idx + 0) = idx := by simp [wrap, hi]
    rw [this] at he
    exact not_occ_of_emp pairs idx he ho
  refine ⟨hd0, ?_, ?_⟩
  · unfold wrap; split <;> omega
  · unfold wrap; (repeat' split) <;> omega

theorem insertLoop_post : ∀ (fuel : Nat) (pairs : List (Pair V)) (i : Nat) (c : Pair V),
    Core pairs → c.distance ≠ 0 →
    (∀ (s : Nat) (p : Pair V), pairs[s]? = some p → p.distance ≠ 0 → p.key ≠ c.key) →
    Clear pairs (slot pairs.length c.key) (i % pairs.length) →
    (∃ d, d < fuel ∧ d < pairs.length ∧ Emp pairs (wrap pairs.length (i % pairs.length + d))) →
    ∃ pairs', insertLoop fuel pairs i c = some pairs' ∧ Post pairs c.key c.value pairs' := by
  intro fuel
  induction fuel with
  | zero => intro pairs i c _ _ _ _ ⟨d, hd, _⟩; omega
  | succ fuel ih =>
    intro pairs i c hcore hcd hfresh hclr ⟨d, hdf, hdn, hemp⟩
    have hn := hcore.size_pos
    have hidx : i % pairs.length < pairs.length := Nat.mod_lt _ hn
    generalize hI : i % pairs.length = idx at hidx hclr hemp
    obtain ⟨p, hp⟩ : ∃ p, pairs[idx]? = some p := ⟨pairs[idx], List.getElem?_eq_getElem hidx⟩
    have hhome := slot_lt hn c.key
    rw [insertLoop]
    simp only [hI, hp]
    by_cases hlt : p.distance < c.distance
    · simp only [hlt, if_true]
      by_cases hp0 : p.distance = 0
      · -- the walk ends: the carried pair takes the empty slot
        simp only [hp0, if_true]
        refine ⟨_, rfl, ?_⟩
        have hcs := core_set pairs hcore idx c hidx hcd (fun s q _ hq hqd => hfresh s q hq hqd) hclr
        refine ⟨List.length_set .., hcs, ?_, ?_⟩
        · intro k v
          rw [res_set pairs idx c hidx k v]
          constructor
          · rintro (⟨_, hk, hv⟩ | ⟨s, q, _, hq, hqd, hk, hv⟩)
            · exact Or.inr ⟨hk.symm, hv.symm⟩
            · exact Or.inl ⟨s, q, hq, hqd, hk, hv⟩
          · rintro (⟨s, q, hq, hqd, hk, hv⟩ | ⟨hk, hv⟩)
            · refine Or.inr ⟨s, q, ?_, hq, hqd, hk, hv⟩
              intro e; subst e; rw [hp] at hq; cases hq; exact hqd hp0
            · exact Or.inl ⟨hcd, hk.symm, hv.symm⟩
        · have := countOcc_set pairs idx c p hp
          simp only [hp0, hcd, if_true, if_false] at this
          omega
      · -- swap: the resident is carried on
        simp only [hp0, if_false]
        have hocc : Occ pairs idx := ⟨p, hp, hp0⟩
        have hcs := core_set pairs hcore idx c hidx hcd (fun s q _ hq hqd => hfresh s q hq hqd) hclr
        have hl1 : (pairs.set idx c).length = pairs.length := List.length_set ..
        obtain ⟨hd0, hne, hwd⟩ := emp_ahead pairs idx d hidx hdn hemp hocc
        have hmono : ∀ t, Occ pairs t → Occ (pairs.set idx c) t := by
          intro t ht; rw [occ_set pairs idx c hidx t]; split
          · exact hcd
          · exact ht
        have hph := slot_lt hn p.key
        have hnf : wrap pairs.length (idx + 1) ≠ slot pairs.length p.key := by
          intro heq
          have hall := full_circle pairs _ idx hph hidx (hcore.nogap idx p hp hp0) hocc heq
          obtain ⟨q, hq, hqd⟩ := hemp
          have he : wrap pairs.length (idx + d) < pairs.length := (List.getElem?_eq_some_iff.mp hq).1
          exact not_occ_of_emp pairs _ ⟨q, hq, hqd⟩ (hall _ he)
        have hclr' : Clear (pairs.set idx c) (slot (pairs.set idx c).length p.key) ((idx + 1) % (pairs.set idx c).length) := by
          rw [hl1, mod_succ_eq_wrap _ _ hn hidx]
          exact clear_mono pairs _ hl1 hmono _ _
            (clear_step pairs _ idx hph hidx (hcore.nogap idx p hp hp0) hocc hnf)
        have hfresh' : ∀ (s : Nat) (q : Pair V), (pairs.set idx c)[s]? = some q → q.distance ≠ 0 →
            q.key ≠ ({ p with distance := p.distance + 1 } : Pair V).key := by
          intro s q hq hqd
          show q.key ≠ p.key
          by_cases hs : s = idx
          · subst hs
            rw [List.getElem?_set_self hidx] at hq; cases hq
            exact fun e => hfresh s p hp hp0 e.symm
          · rw [List.getElem?_set_ne (Ne.symm hs)] at hq
            intro e
            exact hs (hcore.unique s idx q p hq hp hqd hp0 e)
        have hemp' : ∃ d', d' < fuel ∧ d' < (pairs.set idx c).length ∧
            Emp (pairs.set idx c) (wrap (pairs.set idx c).length ((idx + 1) % (pairs.set idx c).length + d')) := by
          refine ⟨d - 1, by omega, by rw [hl1]; omega, ?_⟩
          rw [hl1, mod_succ_eq_wrap _ _ hn hidx, hwd, emp_set pairs idx c hidx]
          simp only [hne, if_false]
          exact hemp
        obtain ⟨pairs', hrun, hpost⟩ := ih (pairs.set idx c) (idx + 1) { p with distance := p.distance + 1 } hcs
          (by simp) hfresh' hclr' hemp'
        refine ⟨pairs', hrun, ?_⟩
        refine ⟨hpost.len.trans hl1, hpost.core, ?_, ?_⟩
        · intro k v
          rw [hpost.res k v, res_set pairs idx c hidx k v]
          constructor
          · rintro ((⟨_, hk, hv⟩ | ⟨s, q, _, hq, hqd, hk, hv⟩) | ⟨hk, hv⟩)
            · exact Or.inr ⟨hk.symm, hv.symm⟩
            · exact Or.inl ⟨s, q, hq, hqd, hk, hv⟩
            · exact Or.inl ⟨idx, p, hp, hp0, hk.symm, hv.symm⟩
          · rintro (⟨s, q, hq, hqd, hk, hv⟩ | ⟨hk, hv⟩)
            · by_cases hs : s = idx
              · subst hs; rw [hp] at hq; cases hq
                exact Or.inr ⟨hk.symm, hv.symm⟩
              · exact Or.inl (Or.inr ⟨s, q, hs, hq, hqd, hk, hv⟩)
            · exact Or.inl (Or.inl ⟨hcd, hk.symm, hv.symm⟩)
        · have := countOcc_set pairs idx c p hp
          simp only [hp0, hcd, if_false] at this
          have h2 := hpost.count
          omega
    · -- pass: the resident is at least as far from home
      simp only [hlt, if_false]
      have hp0 : p.distance ≠ 0 := by omega
      have hocc : Occ pairs idx := ⟨p, hp, hp0⟩
      obtain ⟨hd0, hne, hwd⟩ := emp_ahead pairs idx d hidx hdn hemp hocc
      have hnf : wrap pairs.length (idx + 1) ≠ slot pairs.length c.key := by
        intro heq
        have hall := full_circle pairs _ idx hhome hidx hclr hocc heq
        obtain ⟨q, hq, hqd⟩ := hemp
        have he : wrap pairs.length (idx + d) < pairs.length := (List.getElem?_eq_some_iff.mp hq).1
        exact not_occ_of_emp pairs _ ⟨q, hq, hqd⟩ (hall _ he)
      have hclr' : Clear pairs (slot pairs.length ({ c with distance := c.distance + 1 } : Pair V).key) ((idx + 1) % pairs.length) := by
        rw [mod_succ_eq_wrap _ _ hn hidx]
        exact clear_step pairs _ idx hhome hidx hclr hocc hnf
      have hemp' : ∃ d', d' < fuel ∧ d' < pairs.length ∧ Emp pairs (wrap pairs.length ((idx + 1) % pairs.length + d')) := by
        refine ⟨d - 1, by omega, by omega, ?_⟩
        rw [mod_succ_eq_wrap _ _ hn hidx, hwd]
        exact hemp
      obtain ⟨pairs', hrun, hpost⟩ := ih pairs (idx + 1) { c with distance := c.distance + 1 } hcore
        (by simp) (fun s q hq hqd => hfresh s q hq hqd) hclr' hemp'
      exact ⟨pairs', hrun, hpost⟩


theorem clear_self (pairs : List (Pair V)) (h : Nat) (_hh : h < pairs.length) : Clear pairs h h := by
  intro j hj
  have : wrap pairs.length (h + pairs.length - h) = 0 := by unfold wrap; split <;> omega
  omega

/-- **insertRaw_post.** Inserting a key that is not resident into a table that satisfies the read
    invariant succeeds and yields a table with the same residents plus the new one, satisfying the
    core invariant again. -/
theorem insertRaw_post (pairs : List (Pair V)) (hinv : ReadInv pairs) (key : Int) (value : V)
    (hfresh : ∀ (s : Nat) (p : Pair V), pairs[s]? = some p → p.distance ≠ 0 → p.key ≠ key) :
    ∃ pairs', insertRaw pairs key value = some pairs' ∧ Post pairs key value pairs' := by
  have hn := hinv.size_pos
  have hh := slot_lt hn key
  obtain ⟨e, pe, hpe, hde⟩ := hinv.has_empty
  have he : e < pairs.length := (List.getElem?_eq_some_iff.mp hpe).1
  obtain ⟨j, hj, hje⟩ := reach_any pairs.length (slot pairs.length key) e hh he
  have hmod : slot pairs.length key % pairs.length = slot pairs.length key := Nat.mod_eq_of_lt hh
  unfold insertRaw
  exact insertLoop_post _ pairs _ { distance := 1, key := key, value := value }
    ((readInv_iff pairs).mp hinv).1 (by simp) hfresh
    (by rw [hmod]; exact clear_self pairs _ hh)
    ⟨j, by omega, hj, by rw [hmod, hje]; exact ⟨pe, hpe, hde⟩⟩

theorem countOcc_le (pairs : List (Pair V)) : countOcc pairs ≤ pairs.length := by
  induction pairs with
  | nil => simp [countOcc]
  | cons a t ih => simp only [countOcc, List.length_cons]; split <;> omega

/-- a table that is not full has an empty slot -/
theorem emp_of_count (pairs : List (Pair V)) (h : countOcc pairs < pairs.length) : ∃ e, Emp pairs e := by
  induction pairs with
  | nil => simp [countOcc] at h
  | cons a t ih =>
    by_cases ha : a.distance = 0
    · exact ⟨0, a, by simp, ha⟩
    · simp only [countOcc, ha, if_false, List.length_cons] at h
      obtain ⟨e, p, hp, hd⟩ := ih (by omega)
      exact ⟨e + 1, p, by simpa using hp, hd⟩

theorem countOcc_replicate_empty [Inhabited V] (n : Nat) : countOcc (List.replicate n (emptyPair (V := V))) = 0 := by
  induction n with
  | zero => rfl
  | succ n ih =>
    rw [List.replicate_succ, countOcc, ih]
    simp [emptyPair]


/-! ### overwriting the value of a resident (Set on an existing key, Assign) -/

theorem core_update (pairs : List (Pair V)) (hc : Core pairs) (i : Nat) (p : Pair V) (hp : pairs[i]? = some p)
    (v : V) : Core (pairs.set i { p with value := v }) := by
  have hi : i < pairs.length := (List.getElem?_eq_some_iff.mp hp).1
  have hl : (pairs.set i { p with value := v }).length = pairs.length := List.length_set ..
  have hget : ∀ (s : Nat) (q : Pair V), (pairs.set i { p with value := v })[s]? = some q →
      ∃ q0, pairs[s]? = some q0 ∧ q0.distance = q.distance ∧ q0.key = q.key := by
    intro s q hq
    by_cases hs : s = i
    · subst hs
      rw [List.getElem?_set_self hi] at hq; cases hq
      exact ⟨p, hp, rfl, rfl⟩
    · rw [List.getElem?_set_ne (Ne.symm hs)] at hq
      exact ⟨q, hq, rfl, rfl⟩
  have hocc : ∀ t, Occ pairs t → Occ (pairs.set i { p with value := v }) t := by
    intro t ⟨q, hq, hqd⟩
    by_cases ht : t = i
    · subst ht
      rw [hp] at hq; cases hq
      exact ⟨_, List.getElem?_set_self hi, hqd⟩
    · exact ⟨q, by rw [List.getElem?_set_ne (Ne.symm ht)]; exact hq, hqd⟩
  refine ⟨by rw [hl]; exact hc.size_pos, ?_, ?_⟩
  · intro s t a b ha hb had hbd hk
    obtain ⟨a0, ha0, e1, e2⟩ := hget s a ha
    obtain ⟨b0, hb0, e3, e4⟩ := hget t b hb
    exact hc.unique s t a0 b0 ha0 hb0 (by omega) (by omega) (by rw [e2, e4]; exact hk)
  · intro s a ha had
    obtain ⟨a0, ha0, e1, e2⟩ := hget s a ha
    rw [hl, ← e2]
    exact clear_mono pairs _ hl hocc _ _ (hc.nogap s a0 ha0 (by omega))

theorem countOcc_update (pairs : List (Pair V)) (i : Nat) (p : Pair V) (hp : pairs[i]? = some p) (v : V) :
    countOcc (pairs.set i { p with value := v }) = countOcc pairs := by
  have := countOcc_set pairs i { p with value := v } p hp
  simp only [] at this
  omega

theorem res_update (pairs : List (Pair V)) (hc : Core pairs) (i : Nat) (p : Pair V) (hp : pairs[i]? = some p)
    (hd : p.distance ≠ 0) (v : V) (k : Int) (w : V) :
    Res (pairs.set i { p with value := v }) k w ↔ ((k = p.key ∧ w = v) ∨ (k ≠ p.key ∧ Res pairs k w)) := by
  have hi : i < pairs.length := (List.getElem?_eq_some_iff.mp hp).1
  rw [res_set pairs i _ hi k w]
  constructor
  · rintro (⟨_, hk, hv⟩ | ⟨s, q, hs, hq, hqd, hk, hv⟩)
    · exact Or.inl ⟨hk.symm, hv.symm⟩
    · refine Or.inr ⟨?_, s, q, hq, hqd, hk, hv⟩
      intro e
      exact hs (hc.unique s i q p hq hp hqd hd (by rw [hk, e]))
  · rintro (⟨hk, hv⟩ | ⟨hne, s, q, hq, hqd, hk, hv⟩)
    · exact Or.inl ⟨hd, hk.symm, hv.symm⟩
    · refine Or.inr ⟨s, q, ?_, hq, hqd, hk, hv⟩
      intro e; subst e
      rw [hp] at hq; cases hq
      exact hne hk.symm

/-! ### the table-level invariant -/

structure Inv (m : IM V) : Prop where
  core : Core m.pairs
  total_eq : m.total = countOcc m.pairs
  load : m.total ≤ m.max
  room : 4 ≤ m.size

theorem max_lt_size (m : IM V) (h : 0 < m.size) : m.max < m.size := by
  unfold IM.max
  have h3 : Gen.intMapMaxNum = 3 := by decide
  have h4 : Gen.intMapMaxDen = 4 := by decide
  rw [h3, h4]
  omega

theorem Inv.readInv {m : IM V} (h : Inv m) : ReadInv m.pairs := by
  rw [readInv_iff]
  refine ⟨h.core, emp_of_count m.pairs ?_⟩
  have := max_lt_size m h.core.size_pos
  have h1 := h.total_eq
  have h2 := h.load
  unfold IM.size at this
  omega

/-- under the invariant, `Get` is the lookup of the residents -/
theorem get_iff_res (m : IM V) (h : Inv m) (k : Int) (v : V) : m.get k = some v ↔ Res m.pairs k v := by
  constructor
  · intro hg
    by_cases hex : ∃ (s : Nat) (q : Pair V), m.pairs[s]? = some q ∧ q.distance ≠ 0 ∧ q.key = k
    · obtain ⟨s, q, hq, hqd, hk⟩ := hex
      have := get_present m h.readInv s q hq hqd
      rw [hk, hg] at this
      exact ⟨s, q, hq, hqd, hk, (Option.some.inj this).symm⟩
    · have := get_absent m h.readInv k (fun s q hq hqd hk => hex ⟨s, q, hq, hqd, hk⟩)
      rw [this] at hg; cases hg
  · intro ⟨s, q, hq, hqd, hk, hv⟩
    have := get_present m h.readInv s q hq hqd
    rw [hk, hv] at this
    exact this


/-! ### resize: re-inserting every resident into a fresh table -/

def occB (p : Pair V) : Bool := decide (p.distance ≠ 0)

theorem filter_len (pairs : List (Pair V)) : (pairs.filter occB).length = countOcc pairs := by
  induction pairs with
  | nil => rfl
  | cons a t ih =>
    by_cases ha : a.distance = 0
    · simp [occB, countOcc, ha, ← ih]
    · simp [occB, countOcc, ha, ← ih]; omega

theorem filter_nodup_keys (pairs : List (Pair V))
    (hu : ∀ (s t : Nat) (p q : Pair V), pairs[s]? = some p → pairs[t]? = some q → p.distance ≠ 0 → q.distance ≠ 0 →
      p.key = q.key → s = t) : ((pairs.filter occB).map (·.key)).Nodup := by
  induction pairs with
  | nil => simp
  | cons a t ih =>
    have hu' : ∀ (s u : Nat) (p q : Pair V), t[s]? = some p → t[u]? = some q → p.distance ≠ 0 → q.distance ≠ 0 →
        p.key = q.key → s = u := by
      intro s u p q hp hq hpd hqd hk
      have := hu (s + 1) (u + 1) p q (by simpa using hp) (by simpa using hq) hpd hqd hk
      omega
    by_cases ha : a.distance = 0
    · simp only [List.filter_cons, occB, ha, ne_eq, not_true_eq_false, decide_false]
      exact ih hu'
    · simp only [List.filter_cons, occB, ha, ne_eq, not_false_eq_true, decide_true, if_true, List.map_cons,
        List.nodup_cons]
      refine ⟨?_, ih hu'⟩
      intro hmem
      obtain ⟨q, hq, hk⟩ := List.mem_map.mp hmem
      obtain ⟨hqt, hqo⟩ := List.mem_filter.mp hq
      obtain ⟨j, hj⟩ := List.mem_iff_getElem?.mp hqt
      have hqd : q.distance ≠ 0 := by simpa [occB] using hqo
      have := hu 0 (j + 1) a q (by simp) (by simpa using hj) ha hqd hk.symm
      omega

theorem mem_filter_iff (pairs : List (Pair V)) (p : Pair V) :
    p ∈ pairs.filter occB ↔ ∃ (s : Nat), pairs[s]? = some p ∧ p.distance ≠ 0 := by
  rw [List.mem_filter, List.mem_iff_getElem?]
  constructor
  · rintro ⟨⟨s, hs⟩, ho⟩
    exact ⟨s, hs, by simpa [occB] using ho⟩
  · rintro ⟨s, hs, hd⟩
    exact ⟨⟨s, hs⟩, by simpa [occB] using hd⟩

def reinsert [Inhabited V] (acc : IM V) (p : Pair V) : Option (IM V) :=
  (insertRaw acc.pairs p.key p.value).map fun ps => { acc with pairs := ps }

theorem fold_insert [Inhabited V] (R : List (Pair V)) : ∀ (acc : IM V), Core acc.pairs →
    countOcc acc.pairs + R.length < acc.pairs.length → (R.map (·.key)).Nodup →
    (∀ p ∈ R, ∀ (s : Nat) (q : Pair V), acc.pairs[s]? = some q → q.distance ≠ 0 → q.key ≠ p.key) →
    ∃ acc', R.foldlM reinsert acc = some acc' ∧ Core acc'.pairs ∧ acc'.pairs.length = acc.pairs.length ∧
      acc'.total = acc.total ∧ countOcc acc'.pairs = countOcc acc.pairs + R.length ∧
      ∀ k v, Res acc'.pairs k v ↔ (Res acc.pairs k v ∨ ∃ p ∈ R, p.key = k ∧ p.value = v) := by
  induction R with
  | nil =>
    intro acc hc _ _ _
    exact ⟨acc, rfl, hc, rfl, rfl, by simp, by simp⟩
  | cons p R ih =>
    intro acc hc hcount hnd hfresh
    simp only [List.map_cons, List.nodup_cons] at hnd
    simp only [List.length_cons] at hcount
    have hri : ReadInv acc.pairs := (readInv_iff _).mpr ⟨hc, emp_of_count _ (by omega)⟩
    obtain ⟨ps, hins, hpost⟩ := insertRaw_post acc.pairs hri p.key p.value
      (fun s q hq hqd => hfresh p (by simp) s q hq hqd)
    have hstep : reinsert acc p = some { acc with pairs := ps } := by simp [reinsert, hins]
    obtain ⟨acc', hfold, hc', hl', ht', hcnt', hres'⟩ := ih { acc with pairs := ps } hpost.core
      (by simp only []; rw [hpost.len, hpost.count]; omega) hnd.2
      (by
        intro p' hp' s q hq hqd
        have hr : Res ps q.key q.value := ⟨s, q, hq, hqd, rfl, rfl⟩
        rcases (hpost.res q.key q.value).mp hr with ⟨s0, q0, hq0, hq0d, hk0, _⟩ | ⟨hk, _⟩
        · rw [← hk0]; exact hfresh p' (by simp [hp']) s0 q0 hq0 hq0d
        · rw [hk]
          intro e
          exact hnd.1 (List.mem_map.mpr ⟨p', hp', e.symm⟩))
    refine ⟨acc', ?_, hc', hl'.trans hpost.len, ht', ?_, ?_⟩
    · simp [List.foldlM_cons, hstep, hfold]
    · rw [hcnt', hpost.count]; simp only [List.length_cons]; omega
    · intro k v
      rw [hres' k v, hpost.res k v]
      constructor
      · rintro ((h | ⟨hk, hv⟩) | ⟨q, hq, hk, hv⟩)
        · exact Or.inl h
        · exact Or.inr ⟨p, by simp, hk.symm, hv.symm⟩
        · exact Or.inr ⟨q, by simp [hq], hk, hv⟩
      · rintro (h | ⟨q, hq, hk, hv⟩)
        · exact Or.inl (Or.inl h)
        · rcases List.mem_cons.mp hq with rfl | hq'
          · exact Or.inl (Or.inr ⟨hk.symm, hv.symm⟩)
          · exact Or.inr ⟨q, hq', hk, hv⟩


theorem resize_unfold [Inhabited V] (m : IM V) (size : Nat) :
    m.resize size =
      (if (if size < Gen.intMapMin then Gen.intMapMin else size) = m.size then some m
       else (m.pairs.filter occB).foldlM reinsert (mkTable (if size < Gen.intMapMin then Gen.intMapMin else size) m.total)) := rfl

theorem mkTable_core [Inhabited V] (n total : Nat) (hn : 0 < n) : Core (mkTable (V := V) n total).pairs :=
  ((readInv_iff _).mp (new_inv (V := V) n hn)).1

theorem mkTable_no_res [Inhabited V] (n total : Nat) (k : Int) (v : V) : ¬ Res (mkTable (V := V) n total).pairs k v := by
  rintro ⟨s, p, hp, hd, _, _⟩
  have := List.getElem?_eq_some_iff.mp hp
  obtain ⟨_, heq⟩ := this
  simp [mkTable] at heq
  rw [← heq] at hd
  exact hd rfl

theorem resize_post [Inhabited V] (m : IM V) (hc : Core m.pairs) (size : Nat)
    (hN : countOcc m.pairs < (if size < Gen.intMapMin then Gen.intMapMin else size)) :
    ∃ m', m.resize size = some m' ∧ Core m'.pairs ∧ m'.total = m.total ∧
      countOcc m'.pairs = countOcc m.pairs ∧
      m'.size = (if size < Gen.intMapMin then Gen.intMapMin else size) ∧
      ∀ k v, Res m'.pairs k v ↔ Res m.pairs k v := by
  rw [resize_unfold]
  generalize hNdef : (if size < Gen.intMapMin then Gen.intMapMin else size) = N at hN ⊢
  by_cases heq : N = m.size
  · simp only [heq, if_true]
    exact ⟨m, rfl, hc, rfl, rfl, rfl, fun _ _ => Iff.rfl⟩
  · simp only [heq, if_false]
    have hNpos : 0 < N := by omega
    have hlen : (mkTable (V := V) N m.total).pairs.length = N := by simp [mkTable]
    obtain ⟨acc', hfold, hc', hl', ht', hcnt', hres'⟩ := fold_insert (m.pairs.filter occB) (mkTable N m.total)
      (mkTable_core N m.total hNpos)
      (by rw [hlen, filter_len]; simp only [mkTable, countOcc_replicate_empty]; omega)
      (filter_nodup_keys m.pairs hc.unique)
      (by
        intro p _ s q hq hqd
        exact absurd ⟨s, q, hq, hqd, rfl, rfl⟩ (mkTable_no_res N m.total q.key q.value))
    refine ⟨acc', hfold, hc', by rw [ht']; rfl, ?_, by unfold IM.size; rw [hl', hlen], ?_⟩
    · rw [hcnt', filter_len]; simp only [mkTable, countOcc_replicate_empty]; omega
    · intro k v
      rw [hres' k v]
      constructor
      · rintro (h | ⟨p, hp, hk, hv⟩)
        · exact absurd h (mkTable_no_res N m.total k v)
        · obtain ⟨s, hs, hd⟩ := (mem_filter_iff m.pairs p).mp hp
          exact ⟨s, p, hs, hd, hk, hv⟩
      · rintro ⟨s, p, hs, hd, hk, hv⟩
        exact Or.inr ⟨p, (mem_filter_iff m.pairs p).mpr ⟨s, hs, hd⟩, hk, hv⟩

theorem probe_found_sound (pairs : List (Pair V)) (key : Int) : ∀ (fuel i r : Nat),
    probe pairs key fuel i = some (.found r) → ∃ p, pairs[r]? = some p ∧ p.distance ≠ 0 ∧ p.key = key := by
  intro fuel
  induction fuel with
  | zero => intro i r h; simp [probe] at h
  | succ fuel ih =>
    intro i r h
    rw [probe] at h
    cases hp : pairs[i % pairs.length]? with
    | none => simp [hp] at h
    | some p =>
      simp only [hp] at h
      by_cases hd : p.distance = 0
      · simp [hd] at h
      · simp only [hd, if_false] at h
        by_cases hk : p.key = key
        · simp only [hk, if_true, Option.some.injEq, Probe.found.injEq] at h
          subst h
          exact ⟨p, hp, hd, hk⟩
        · simp only [hk, if_false] at h
          exact ih _ r h

/-- **set_post.** `Set` preserves the table invariant, and afterwards the residents are the old
    ones with `k ↦ v` added or overwritten — across the displacement walk and across a resize. -/
theorem set_post [Inhabited V] (m : IM V) (h : Inv m) (k : Int) (v : V) :
    ∃ m', m.set k v = some m' ∧ Inv m' ∧
      ∀ k' w, Res m'.pairs k' w ↔ ((k' = k ∧ w = v) ∨ (k' ≠ k ∧ Res m.pairs k' w)) := by
  have hri := h.readInv
  obtain ⟨r, hr⟩ := find_total m hri k
  unfold IM.set
  rw [hr]
  cases r with
  | found i =>
    obtain ⟨p, hp, hpd, hpk⟩ := probe_found_sound m.pairs k _ _ i hr
    simp only [hp]
    refine ⟨_, rfl, ⟨core_update m.pairs h.core i p hp v, ?_, ?_, ?_⟩, ?_⟩
    · simp only []; rw [countOcc_update m.pairs i p hp v]; exact h.total_eq
    · have : ({ m with pairs := m.pairs.set i { p with value := v } } : IM V).max = m.max := by
        simp [IM.max, IM.size]
      rw [this]; exact h.load
    · have : ({ m with pairs := m.pairs.set i { p with value := v } } : IM V).size = m.size := by
        simp [IM.size]
      rw [this]; exact h.room
    · intro k' w
      rw [res_update m.pairs h.core i p hp hpd v k' w, hpk]
  | empty e =>
    have hfresh : ∀ (s : Nat) (q : Pair V), m.pairs[s]? = some q → q.distance ≠ 0 → q.key ≠ k := by
      intro s q hq hqd hk
      have := find_present m.pairs hri s q hq hqd
      rw [hk] at this
      unfold IM.find IM.size at hr
      rw [this] at hr
      cases hr
    obtain ⟨ps, hins, hpost⟩ := insertRaw_post m.pairs hri k v hfresh
    simp only [hins]
    have hresform : ∀ k' w, Res ps k' w ↔ ((k' = k ∧ w = v) ∨ (k' ≠ k ∧ Res m.pairs k' w)) := by
      intro k' w
      rw [hpost.res k' w]
      constructor
      · rintro (⟨s, q, hq, hqd, hk, hv⟩ | hkv)
        · exact Or.inr ⟨fun e => hfresh s q hq hqd (hk.trans e), s, q, hq, hqd, hk, hv⟩
        · exact Or.inl hkv
      · rintro (hkv | ⟨_, hres⟩)
        · exact Or.inr hkv
        · exact Or.inl hres
    have hn := h.core.size_pos
    have hmax := max_lt_size m hn
    have hteq := h.total_eq
    have hload := h.load
    have hroom := h.room
    have hmin : Gen.intMapMin = 16 := by decide
    have h3 : Gen.intMapMaxNum = 3 := by decide
    have h4 : Gen.intMapMaxDen = 4 := by decide
    by_cases hbig : m.total + 1 > (ps.length * Gen.intMapMaxNum / Gen.intMapMaxDen)
    · -- the table grows
      have hcond : ({ pairs := ps, total := m.total + 1 } : IM V).total > ({ pairs := ps, total := m.total + 1 } : IM V).max := by
        simpa [IM.max, IM.size] using hbig
      simp only [hcond, if_true]
      have hsz : ({ pairs := ps, total := m.total + 1 } : IM V).size = m.size := by simp [IM.size, hpost.len]
      obtain ⟨m', hrs, hc', ht', hcnt', hsize', hres'⟩ := resize_post ({ pairs := ps, total := m.total + 1 } : IM V)
        hpost.core (({ pairs := ps, total := m.total + 1 } : IM V).size * 2) (by
          simp only [hsz, hpost.count, hmin]
          unfold IM.size IM.max at *
          split <;> omega)
      refine ⟨m', hrs, ⟨hc', ?_, ?_, ?_⟩, ?_⟩
      · rw [ht', hcnt', hpost.count]; simp only []; omega
      · rw [ht']; simp only []
        unfold IM.max
        rw [hsize', hsz, h3, h4, hmin]
        unfold IM.size IM.max at *
        split <;> omega
      · rw [hsize', hsz, hmin]; unfold IM.size at *; split <;> omega
      · intro k' w
        rw [hres' k' w]; exact hresform k' w
    · have hcond : ¬ (({ pairs := ps, total := m.total + 1 } : IM V).total > ({ pairs := ps, total := m.total + 1 } : IM V).max) := by
        simpa [IM.max, IM.size] using hbig
      simp only [hcond, if_false]
      refine ⟨_, rfl, ⟨hpost.core, ?_, ?_, ?_⟩, hresform⟩
      · simp only []; rw [hpost.count]; omega
      · simp only [IM.max, IM.size]; omega
      · simp only [IM.size, hpost.len]; exact hroom


theorem newSize_ge (alloc : Nat) : ∀ (f s : Nat), s ≤ newSize alloc f s := by
  intro f
  induction f with
  | zero => intro s; simp [newSize]
  | succ f ih =>
    intro s
    simp only [newSize]
    split
    · have := ih (s * 2); omega
    · omega

/-- a fresh table satisfies the invariant -/
theorem new_Inv [Inhabited V] (alloc : Nat) : Inv (new (V := V) alloc) := by
  have hmin : Gen.intMapMin = 16 := by decide
  have hge := newSize_ge alloc 64 Gen.intMapMin
  have hpos : 0 < newSize alloc 64 Gen.intMapMin := by omega
  refine ⟨mkTable_core _ 0 hpos, ?_, ?_, ?_⟩
  · simp [new, mkTable, countOcc_replicate_empty]
  · simp [new, mkTable]
  · simp only [new, IM.size, mkTable, List.length_replicate]; omega

/-- **set_get_same / set_get_other.** After `Set k v`, `Get k` is `v` and every other key reads
    as before. -/
theorem set_get_same [Inhabited V] (m m' : IM V) (h : Inv m) (k : Int) (v : V) (hs : m.set k v = some m') :
    Inv m' ∧ m'.get k = some v := by
  obtain ⟨m'', hs', hinv, hres⟩ := set_post m h k v
  rw [hs] at hs'; cases hs'
  exact ⟨hinv, (get_iff_res m' hinv k v).mpr ((hres k v).mpr (Or.inl ⟨rfl, rfl⟩))⟩

theorem set_get_other [Inhabited V] (m m' : IM V) (h : Inv m) (k k' : Int) (v : V) (hs : m.set k v = some m')
    (hne : k' ≠ k) : m'.get k' = m.get k' := by
  obtain ⟨m'', hs', hinv, hres⟩ := set_post m h k v
  rw [hs] at hs'; cases hs'
  cases hg : m.get k' with
  | none =>
    cases hg' : m'.get k' with
    | none => rfl
    | some w =>
      have := (get_iff_res m' hinv k' w).mp hg'
      rcases (hres k' w).mp this with ⟨e, _⟩ | ⟨_, hr⟩
      · exact absurd e hne
      · have := (get_iff_res m h k' w).mpr hr
        rw [hg] at this; cases this
  | some w =>
    exact (get_iff_res m' hinv k' w).mpr ((hres k' w).mpr (Or.inr ⟨hne, (get_iff_res m h k' w).mp hg⟩))

/-- `Set` never fails under the invariant -/
theorem set_total [Inhabited V] (m : IM V) (h : Inv m) (k : Int) (v : V) : ∃ m', m.set k v = some m' ∧ Inv m' := by
  obtain ⟨m', hs, hinv, _⟩ := set_post m h k v
  exact ⟨m', hs, hinv⟩

/-- the specification: an association list read with "last write wins" -/
def specGet (ops : List (Int × V)) (k : Int) : Option V := (ops.reverse.find? (·.1 = k)).map (·.2)

/-- **history_refines.** Starting from a fresh table, any sequence of `Set`s succeeds, keeps the
    invariant, and the table then answers every `Get` like the finite map with those writes. -/
theorem history_refines [Inhabited V] (alloc : Nat) (ops : List (Int × V)) :
    ∃ m, ops.foldlM (fun (m : IM V) kv => m.set kv.1 kv.2) (new alloc) = some m ∧ Inv m ∧
      ∀ k, m.get k = specGet ops k := by
  suffices hgen : ∀ (ops : List (Int × V)) (m0 : IM V) (pre : List (Int × V)), Inv m0 →
      (∀ k, m0.get k = specGet pre k) →
      ∃ m, ops.foldlM (fun (m : IM V) kv => m.set kv.1 kv.2) m0 = some m ∧ Inv m ∧
        ∀ k, m.get k = specGet (pre ++ ops) k by
    have h0 : ∀ k, (new (V := V) alloc).get k = specGet [] k := by
      intro k
      have hinv := new_Inv (V := V) alloc
      cases hg : (new (V := V) alloc).get k with
      | none => rfl
      | some w =>
        have := (get_iff_res _ hinv k w).mp hg
        exact absurd this (mkTable_no_res _ 0 k w)
    simpa using hgen ops (new alloc) [] (new_Inv alloc) h0
  intro ops
  induction ops with
  | nil => intro m0 pre hinv hspec; exact ⟨m0, rfl, hinv, by simpa using hspec⟩
  | cons kv ops ih =>
    intro m0 pre hinv hspec
    obtain ⟨m1, hs, hinv1⟩ := set_total m0 hinv kv.1 kv.2
    have hspec1 : ∀ k, m1.get k = specGet (pre ++ [kv]) k := by
      intro k
      by_cases hk : k = kv.1
      · subst hk
        rw [(set_get_same m0 m1 hinv kv.1 kv.2 hs).2]
        simp [specGet]
      · rw [set_get_other m0 m1 hinv kv.1 k kv.2 hs hk, hspec k]
        have : ¬ (kv.1 = k) := fun e => hk e.symm
        simp [specGet, this]
    obtain ⟨m, hf, hinvm, hspecm⟩ := ih m1 (pre ++ [kv]) hinv1 hspec1
    refine ⟨m, ?_, hinvm, ?_⟩
    · simp [List.foldlM_cons, hs, hf]
    · intro k; rw [hspecm k]; simp

/-! ### Assign: the store behind `x.f = v` (structT.SetIndex = Fields.Assign) -/

/-- **assign_post.** Under the invariant `Assign k f` never fails and keeps the invariant; a
    resident key's value becomes `f` of the old one, nothing else changes; a key that is not a
    field of the table is NOT created (the table is returned as it is). -/
theorem assign_post (m : IM V) (h : Inv m) (k : Int) (f : V → V) :
    ∃ m', m.assign k f = some m' ∧ Inv m' ∧ m'.size = m.size ∧ m'.total = m.total ∧
      m'.get k = (m.get k).map f ∧ ∀ k', k' ≠ k → m'.get k' = m.get k' := by
  have hri := h.readInv
  obtain ⟨r, hr⟩ := find_total m hri k
  unfold IM.assign
  rw [hr]
  cases r with
  | found i =>
    obtain ⟨p, hp, hpd, hpk⟩ := probe_found_sound m.pairs k _ _ i hr
    simp only [hp]
    have hinv' : Inv ({ m with pairs := m.pairs.set i { p with value := f p.value } } : IM V) := by
      refine ⟨core_update m.pairs h.core i p hp (f p.value), ?_, ?_, ?_⟩
      · simp only []; rw [countOcc_update m.pairs i p hp (f p.value)]; exact h.total_eq
      · have : ({ m with pairs := m.pairs.set i { p with value := f p.value } } : IM V).max = m.max := by
          simp [IM.max, IM.size]
        rw [this]; exact h.load
      · have : ({ m with pairs := m.pairs.set i { p with value := f p.value } } : IM V).size = m.size := by
          simp [IM.size]
        rw [this]; exact h.room
    have hres := res_update m.pairs h.core i p hp hpd (f p.value)
    have hold : m.get k = some p.value := (get_iff_res m h k p.value).mpr ⟨i, p, hp, hpd, hpk, rfl⟩
    refine ⟨_, rfl, hinv', by simp [IM.size], rfl, ?_, ?_⟩
    · rw [hold]
      exact (get_iff_res _ hinv' k (f p.value)).mpr ((hres k (f p.value)).mpr (Or.inl ⟨hpk.symm, rfl⟩))
    · intro k' hne
      have hne' : k' ≠ p.key := by rw [hpk]; exact hne
      cases hg : m.get k' with
      | none =>
        cases hg' : IM.get ({ m with pairs := m.pairs.set i { p with value := f p.value } } : IM V) k' with
        | none => rfl
        | some w =>
          have := (get_iff_res _ hinv' k' w).mp hg'
          rcases (hres k' w).mp this with ⟨e, _⟩ | ⟨_, hr'⟩
          · exact absurd e hne'
          · have := (get_iff_res m h k' w).mpr hr'
            rw [hg] at this; cases this
      | some w =>
        exact (get_iff_res _ hinv' k' w).mpr ((hres k' w).mpr (Or.inr ⟨hne', (get_iff_res m h k' w).mp hg⟩))
  | empty e =>
    have habs : m.get k = none := by
      unfold IM.get; rw [hr]
    refine ⟨m, rfl, h, rfl, rfl, ?_, fun _ _ => rfl⟩
    rw [habs]; rfl

/-- `Assign` keeps the set of fields: a key reads as present afterwards iff it did before -/
theorem assign_keeps_fields (m m' : IM V) (h : Inv m) (k : Int) (f : V → V) (ha : m.assign k f = some m')
    (k' : Int) : (m'.get k').isSome = (m.get k').isSome := by
  obtain ⟨m'', ha', _, _, _, hk, ho⟩ := assign_post m h k f
  rw [ha] at ha'; cases ha'
  by_cases e : k' = k
  · subst e; rw [hk]; cases m.get k' <;> rfl
  · rw [ho k' e]

/-! ### structs: a heap of instances that share a type object (Model/Struct.lean) -/

/-- heap invariant: every table satisfies the table invariant and every instance has exactly the
    fields of its type -/
structure HInv (hp : Heap V) : Prop where
  ty_f : Inv hp.ty.fields
  ty_m : Inv hp.ty.methods
  inst : ∀ (r : Nat) (m : IM V), hp.insts[r]? = some m → Inv m ∧ ∀ k, (m.get k).isSome = (hp.ty.fields.get k).isSome

theorem alloc_inv (hp : Heap V) (h : HInv hp) : HInv hp.alloc.1 := by
  refine ⟨h.ty_f, h.ty_m, ?_⟩
  intro r m hm
  simp only [Heap.alloc] at hm
  by_cases hr : r < hp.insts.length
  · rw [List.getElem?_append_left hr] at hm
    exact h.inst r m hm
  · rw [List.getElem?_append_right (by omega)] at hm
    have : r - hp.insts.length = 0 := by
      cases hx : r - hp.insts.length with
      | zero => rfl
      | succ n => rw [hx] at hm; simp at hm
    rw [this] at hm
    simp at hm; subst hm
    exact ⟨h.ty_f, fun _ => rfl⟩

/-- a fresh instance reads the zero value of every field of its type -/
theorem alloc_zero (hp : Heap V) (k : Int) (z : V) (hz : hp.ty.fields.get k = some z) :
    hp.alloc.1.getIndex hp.alloc.2 k = .field z := by
  simp [Heap.alloc, Heap.getIndex, hz]

/-- **field store/load.** After `x.k = v` on instance `r` (any conversion `conv`), through ANY
    variable that holds the same reference `r` (all aliases are the number `r`):
    field `k` reads the converted value, every other field of `r` reads as before, and every
    other instance reads as before; the store never fails and keeps the heap invariant. -/
theorem setIndex_spec (hp : Heap V) (h : HInv hp) (r : Nat) (k : Int) (conv : V → V → V) (v : V)
    (hr : r < hp.insts.length) :
    ∃ hp', hp.setIndex r k conv v = some hp' ∧ HInv hp' ∧ hp'.ty = hp.ty ∧ hp'.insts.length = hp.insts.length ∧
      (∀ old, hp.getIndex r k = .field old → hp'.getIndex r k = .field (conv old v)) ∧
      (∀ k', k' ≠ k → hp'.getIndex r k' = hp.getIndex r k') ∧
      (∀ r' k', r' ≠ r → hp'.getIndex r' k' = hp.getIndex r' k') := by
  obtain ⟨m, hm⟩ : ∃ m, hp.insts[r]? = some m := ⟨hp.insts[r], List.getElem?_eq_getElem hr⟩
  obtain ⟨hminv, hmf⟩ := h.inst r m hm
  obtain ⟨m', ha, hinv', _, _, hk, ho⟩ := assign_post m hminv k (fun old => conv old v)
  have hself : (hp.insts.set r m')[r]? = some m' := List.getElem?_set_self hr
  refine ⟨{ hp with insts := hp.insts.set r m' }, by simp [Heap.setIndex, hm, ha], ⟨h.ty_f, h.ty_m, ?_⟩, rfl,
    by simp, ?_, ?_, ?_⟩
  · intro r' x hx
    have hx' : (hp.insts.set r m')[r']? = some x := hx
    by_cases e : r' = r
    · rw [e, hself] at hx'
      have hxe : m' = x := Option.some.inj hx'
      subst hxe
      refine ⟨hinv', fun k' => ?_⟩
      rw [assign_keeps_fields m m' hminv k _ ha k']; exact hmf k'
    · rw [List.getElem?_set_ne (Ne.symm e)] at hx'
      exact h.inst r' x hx'
  · intro old hold
    simp only [Heap.getIndex, hm] at hold
    simp only [Heap.getIndex, hself, hk]
    cases hg : m.get k with
    | some w => rw [hg] at hold; cases hold; rfl
    | none =>
      rw [hg] at hold
      cases hmm : hp.ty.methods.get k <;> rw [hmm] at hold <;> cases hold
  · intro k' hne
    simp only [Heap.getIndex, hm, hself, ho k' hne]
  · intro r' k' hne
    simp only [Heap.getIndex, List.getElem?_set_ne (Ne.symm hne)]

/-- **methods are found on every instance**, also a method defined after the instance was made:
    a key that is not a field resolves, on every live instance, to the method stored last under
    that index, bound to that very instance. -/
theorem method_on_every_instance [Inhabited V] (hp : Heap V) (h : HInv hp) (k : Int) (fn : V)
    (hnf : hp.ty.fields.get k = none) :
    ∃ hp', hp.addMethod k fn = some hp' ∧ HInv hp' ∧ hp'.insts = hp.insts ∧
      ∀ r, r < hp.insts.length → hp'.getIndex r k = .method r fn := by
  obtain ⟨ms, hs, hinv, _⟩ := set_post hp.ty.methods h.ty_m k fn
  have hget : ms.get k = some fn := (set_get_same _ ms h.ty_m k fn hs).2
  refine ⟨{ hp with ty := { hp.ty with methods := ms } }, by simp [Heap.addMethod, hs], ⟨h.ty_f, hinv, h.inst⟩, rfl, ?_⟩
  intro r hr
  obtain ⟨m, hm⟩ : ∃ m, hp.insts[r]? = some m := ⟨hp.insts[r], List.getElem?_eq_getElem hr⟩
  have hnone : m.get k = none := by
    have := (h.inst r m hm).2 k
    rw [hnf] at this
    cases hg : m.get k with
    | none => rfl
    | some w => rw [hg] at this; cases this
  simp only [Heap.getIndex, hm, hnone, hget]

/-- field stores never disturb method lookup and adding a method never disturbs a field -/
theorem addMethod_keeps_fields [Inhabited V] (hp hp' : Heap V) (k : Int) (fn : V) (ha : hp.addMethod k fn = some hp')
    (r : Nat) (k' : Int) (v : V) (hf : hp.getIndex r k' = .field v) : hp'.getIndex r k' = .field v := by
  unfold Heap.addMethod at ha
  cases hs : hp.ty.methods.set k fn with
  | none => rw [hs] at ha; cases ha
  | some ms =>
    rw [hs] at ha; cases ha
    cases hm : hp.insts[r]? with
    | none => simp [Heap.getIndex, hm] at hf
    | some m =>
      simp only [Heap.getIndex, hm] at hf ⊢
      cases hg : m.get k' with
      | some w => simp only [hg] at hf ⊢; exact hf
      | none =>
        simp only [hg] at hf
        cases hmm : hp.ty.methods.get k' <;> simp [hmm] at hf

/-- non-vacuity: a type with fields 3 and 19 (same home slot in a 16-slot table), two instances -/
def demoHeap : Heap Nat :=
  let f0 : IM Nat := new 2
  let f := ((f0.set 3 0).bind (·.set 19 0)).getD f0
  { ty := { fields := f, methods := new 0 }, insts := [f, f] }

example : (demoHeap.setIndex 0 19 (fun _ v => v) 7).map (fun hp => (hp.getIndex 0 19, hp.getIndex 0 3, hp.getIndex 1 19)
    matches (.field 7, .field 0, .field 0)) = some true := by decide

/-! ### struct literals -/

/-- the value a literal leaves in field `k` that starts at `z`: the conversions of the values given
    for `k`, applied in order -/
def litValue (conv : V → V → V) (k : Int) (z : V) (inits : List (Int × V)) : V :=
  inits.foldl (fun acc kv => if kv.1 = k then conv acc kv.2 else acc) z

theorem setAll_spec (conv : V → V → V) (r : Nat) (inits : List (Int × V)) : ∀ (hp : Heap V), HInv hp → r < hp.insts.length →
    ∃ hp', inits.foldlM (fun (h : Heap V) kv => h.setIndex r kv.1 conv kv.2) hp = some hp' ∧ HInv hp' ∧
      hp'.ty = hp.ty ∧ hp'.insts.length = hp.insts.length ∧
      (∀ k z, hp.getIndex r k = .field z → hp'.getIndex r k = .field (litValue conv k z inits)) ∧
      (∀ r' k, r' ≠ r → hp'.getIndex r' k = hp.getIndex r' k) := by
  induction inits with
  | nil => intro hp h hr; exact ⟨hp, rfl, h, rfl, rfl, fun k z hz => hz, fun _ _ _ => rfl⟩
  | cons kv rest ih =>
    intro hp h hr
    obtain ⟨hp1, hs, hinv1, hty1, hlen1, hsame, hother, hinst⟩ := setIndex_spec hp h r kv.1 conv kv.2 hr
    obtain ⟨hp2, hf, hinv2, hty2, hlen2, hfield2, hinst2⟩ := ih hp1 hinv1 (by rw [hlen1]; exact hr)
    refine ⟨hp2, ?_, hinv2, by rw [hty2, hty1], by rw [hlen2, hlen1], ?_, ?_⟩
    · rw [List.foldlM_cons, hs]; exact hf
    · intro k z hz
      by_cases e : kv.1 = k
      · subst e
        have := hfield2 kv.1 (conv z kv.2) (hsame z hz)
        simpa [litValue] using this
      · have h1 : hp1.getIndex r k = .field z := by rw [hother k (fun h' => e h'.symm)]; exact hz
        have := hfield2 k z h1
        simpa [litValue, e] using this
    · intro r' k hne
      rw [hinst2 r' k hne, hinst r' k hne]

/-- **allocWith_spec.** A struct literal `&T{k1: v1, …}` makes a NEW instance (a reference no variable
    holds yet) with exactly the fields of `T`: a field the literal names holds the converted value,
    every other field its zero value; no existing instance changes. -/
theorem allocWith_spec (hp : Heap V) (h : HInv hp) (conv : V → V → V) (inits : List (Int × V)) :
    ∃ hp', hp.allocWith conv inits = some (hp', hp.insts.length) ∧ HInv hp' ∧
      hp'.insts.length = hp.insts.length + 1 ∧
      (∀ k z, hp.ty.fields.get k = some z → hp'.getIndex hp.insts.length k = .field (litValue conv k z inits)) ∧
      (∀ r' k, r' < hp.insts.length → hp'.getIndex r' k = hp.getIndex r' k) := by
  have hr : hp.alloc.2 < hp.alloc.1.insts.length := by simp [Heap.alloc]
  obtain ⟨hp', hf, hinv', _, hlen, hfield, hother⟩ := setAll_spec conv hp.alloc.2 inits hp.alloc.1 (alloc_inv hp h) hr
  refine ⟨hp', by unfold Heap.allocWith; rw [hf]; rfl, hinv', by rw [hlen]; simp [Heap.alloc], ?_, ?_⟩
  · intro k z hz
    exact hfield k z (alloc_zero hp k z hz)
  · intro r' k hlt
    have hne : r' ≠ hp.alloc.2 := by simp [Heap.alloc]; omega
    rw [hother r' k hne]
    simp only [Heap.getIndex, Heap.alloc]
    rw [List.getElem?_append_left hlt]

/-! ### the type object: declaration and re-declaration (STRUCT, GLOBALSTRUCT → syncFields → addField) -/

theorem mem_orderAfter (ks : List Int) : ∀ (o : List Int) (k : Int), k ∈ orderAfter o ks ↔ k ∈ o ∨ k ∈ ks := by
  induction ks with
  | nil => intro o k; simp [orderAfter]
  | cons x xs ih =>
    intro o k
    unfold orderAfter
    rw [List.foldl_cons]
    have := ih (if x ∈ o then o else o ++ [x]) k
    unfold orderAfter at this
    rw [this]
    by_cases hx : x ∈ o
    · simp only [hx, if_true, List.mem_cons]
      constructor
      · rintro (h | h)
        · exact Or.inl h
        · exact Or.inr (Or.inr h)
      · rintro (h | h | h)
        · exact Or.inl h
        · exact Or.inl (h ▸ hx)
        · exact Or.inr h
    · simp only [hx, if_false, List.mem_append, List.mem_cons, List.mem_nil_iff, or_false]
      constructor
      · rintro ((h | h) | h)
        · exact Or.inl h
        · exact Or.inr (Or.inl h)
        · exact Or.inr (Or.inr h)
      · rintro (h | h | h)
        · exact Or.inl (Or.inl h)
        · exact Or.inl (Or.inr h)
        · exact Or.inr h

/-- the old names keep their places: `Order` only grows at the end -/
theorem orderAfter_prefix (ks : List Int) : ∀ (o : List Int), ∃ suffix, orderAfter o ks = o ++ suffix := by
  induction ks with
  | nil => intro o; exact ⟨[], by simp [orderAfter]⟩
  | cons x xs ih =>
    intro o
    unfold orderAfter
    rw [List.foldl_cons]
    obtain ⟨s, hs⟩ := ih (if x ∈ o then o else o ++ [x])
    unfold orderAfter at hs
    rw [hs]
    by_cases hx : x ∈ o
    · exact ⟨s, by simp [hx]⟩
    · exact ⟨[x] ++ s, by simp [hx]⟩

/-- **addAll_spec.** Adding fields one by one never fails, keeps the table invariant; `Order` grows
    by the new names in order of first appearance; every name reads the LAST value given for it,
    a name that is not among them reads as before. -/
theorem addAll_spec [Inhabited V] (kvs : List (Int × V)) : ∀ (t : TObj V), Inv t.fields →
    ∃ t', t.addAll kvs = some t' ∧ Inv t'.fields ∧ t'.order = orderAfter t.order (kvs.map (·.1)) ∧
      ∀ k, t'.fields.get k = match specGet kvs k with | some v => some v | none => t.fields.get k := by
  induction kvs with
  | nil => intro t h; exact ⟨t, rfl, h, rfl, fun k => rfl⟩
  | cons kv rest ih =>
    intro t h
    obtain ⟨f, hs, hinv⟩ := set_total t.fields h kv.1 kv.2
    have hadd : t.addField kv.1 kv.2 = some { order := if kv.1 ∈ t.order then t.order else t.order ++ [kv.1], fields := f } := by
      simp [TObj.addField, hs]
    obtain ⟨t', hf, hinv', hord, hget⟩ := ih { order := if kv.1 ∈ t.order then t.order else t.order ++ [kv.1], fields := f } hinv
    refine ⟨t', ?_, hinv', ?_, ?_⟩
    · unfold TObj.addAll at hf ⊢
      rw [List.foldlM_cons, hadd]
      exact hf
    · rw [hord]; simp [orderAfter]
    · intro k
      rw [hget k]
      have hsplit : specGet (kv :: rest) k = match specGet rest k with | some v => some v | none => if kv.1 = k then some kv.2 else none := by
        unfold specGet
        rw [List.reverse_cons, List.find?_append]
        cases hq : rest.reverse.find? (·.1 = k) with
        | some x => simp
        | none =>
          by_cases e : kv.1 = k <;> simp [e]
      rw [hsplit]
      cases hr : specGet rest k with
      | some v => rfl
      | none =>
        simp only []
        by_cases e : kv.1 = k
        · subst e
          simp only [if_true]
          exact (set_get_same t.fields f h kv.1 kv.2 hs).2
        · simp only [e, if_false]
          exact set_get_other t.fields f h kv.1 k kv.2 hs (fun h' => e h'.symm)

/-- **sync_spec.** Declaring a type name again merges the new declaration into the old type object -/
theorem sync_spec [Inhabited V] (prev cur : TObj V) (hp : Inv prev.fields) :
    ∃ t', prev.sync cur = some t' ∧ Inv t'.fields ∧
      t'.order = orderAfter prev.order (cur.entries.map (·.1)) ∧
      ∀ k, t'.fields.get k = match specGet cur.entries k with | some v => some v | none => prev.fields.get k :=
  addAll_spec cur.entries prev hp

/-- the open finding `shadowed-local-type-keeps-outer-fields`, part 1: a field of the old declaration
    that the new declaration does not name is still a field, at its old place, with its old value -/
theorem sync_keeps_dropped_field [Inhabited V] (prev cur t' : TObj V) (hp : Inv prev.fields)
    (hs : prev.sync cur = some t') (k : Int) (hk : k ∈ prev.order) (hn : ∀ v, (k, v) ∉ cur.entries) :
    k ∈ t'.order ∧ t'.fields.get k = prev.fields.get k := by
  obtain ⟨t'', hs', _, hord, hget⟩ := sync_spec prev cur hp
  rw [hs] at hs'; cases hs'
  refine ⟨by rw [hord, mem_orderAfter]; exact Or.inl hk, ?_⟩
  rw [hget k]
  have : specGet cur.entries k = none := by
    unfold specGet
    cases hq : cur.entries.reverse.find? (·.1 = k) with
    | none => rfl
    | some x =>
      have hm := List.mem_of_find?_eq_some hq
      have hx := List.find?_some hq
      simp only [decide_eq_true_eq] at hx
      rw [List.mem_reverse] at hm
      exact absurd (by rw [← hx]; exact hm) (hn x.2)
  rw [this]

/-- part 2 (and the legitimate retyping): a field the new declaration names takes the new zero value
    — in the ONE type object both declarations share -/
theorem sync_takes_new_value [Inhabited V] (prev cur t' : TObj V) (hp : Inv prev.fields)
    (hs : prev.sync cur = some t') (k : Int) (v : V) (hk : specGet cur.entries k = some v) :
    t'.fields.get k = some v := by
  obtain ⟨t'', hs', _, _, hget⟩ := sync_spec prev cur hp
  rw [hs] at hs'; cases hs'
  rw [hget k, hk]

theorem declare_spec [Inhabited V] (decl : List (Int × V)) :
    ∃ t, TObj.declare decl = some t ∧ Inv t.fields ∧ t.order = orderAfter [] (decl.map (·.1)) ∧
      ∀ k, t.fields.get k = specGet decl k := by
  obtain ⟨t, h1, h2, h3, h4⟩ := addAll_spec decl ({ order := [], fields := Goat.IntMap.new decl.length } : TObj V) (new_Inv _)
  refine ⟨t, h1, h2, h3, fun k => ?_⟩
  rw [h4 k]
  cases hq : specGet decl k with
  | some v => rfl
  | none =>
    simp only []
    cases hg : (Goat.IntMap.new (V := V) decl.length).get k with
    | none => rfl
    | some w =>
      have := (get_iff_res _ (new_Inv (V := V) decl.length) k w).mp hg
      exact absurd this (mkTable_no_res _ 0 k w)

/-- the regenerated tie: `syncFields`, `addField` and the GLOBALSTRUCT handler still have the shape
    `TObj.sync` / `TObj.addField` model (goatx) -/
theorem type_object_tie : Gen.typeRedeclarationMerges = true := by decide

end Goat.Props.C12


#print axioms Goat.Props.C12.insertLoop_post
#print axioms Goat.Props.C12.insertRaw_post
#print axioms Goat.Props.C12.resize_post
#print axioms Goat.Props.C12.set_post
#print axioms Goat.Props.C12.new_Inv
#print axioms Goat.Props.C12.set_get_same
#print axioms Goat.Props.C12.set_get_other
#print axioms Goat.Props.C12.history_refines
#print axioms Goat.Props.C12.assign_post
#print axioms Goat.Props.C12.assign_keeps_fields
#print axioms Goat.Props.C12.alloc_inv
#print axioms Goat.Props.C12.alloc_zero
#print axioms Goat.Props.C12.setIndex_spec
#print axioms Goat.Props.C12.method_on_every_instance
#print axioms Goat.Props.C12.addMethod_keeps_fields
#print axioms Goat.Props.C12.mem_orderAfter
#print axioms Goat.Props.C12.orderAfter_prefix
#print axioms Goat.Props.C12.addAll_spec
#print axioms Goat.Props.C12.sync_spec
#print axioms Goat.Props.C12.sync_keeps_dropped_field
#print axioms Goat.Props.C12.sync_takes_new_value
#print axioms Goat.Props.C12.declare_spec
#print axioms Goat.Props.C12.type_object_tie
#print axioms Goat.Props.C12.setAll_spec
#print axioms Goat.Props.C12.allocWith_spec
