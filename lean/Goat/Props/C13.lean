import Goat.Model.Str
/-!
# C13 — strings are immutable UTF-8 byte sequences with Go's operations
-/
namespace Goat.Props.C13
open Goat.Str

/-- **decode_encode.** Decoding the UTF-8 encoding of any Unicode scalar value, whatever follows
    it, gives the value back and consumes exactly its encoding. -/
theorem decode_encode (r : Nat) (rest : Bytes) (hv : validRune r) :
    decode (encode r ++ rest) = (r, (encode r).length) := by
  unfold validRune at hv
  unfold encode
  by_cases h1 : r < 0x80
  · simp [h1, decode]
  · by_cases h2 : r < 0x800
    · simp only [h1, h2, if_true, if_false, List.cons_append, List.nil_append, decode, isCont]
      have a1 : ¬ (0xC0 + r / 64 < 0x80) := by omega
      have a2 : 0xC2 ≤ 0xC0 + r / 64 ∧ 0xC0 + r / 64 ≤ 0xDF := by omega
      have a3 : (decide (0x80 ≤ 0x80 + r % 64) && decide (0x80 + r % 64 ≤ 0xBF)) = true := by
        simp; omega
      simp only [a1, a2, a3, if_true, if_false, and_self]
      simp; omega
    · have hv' : validRune r := hv
      by_cases h3 : r < 0x10000
      · simp only [h1, h2, h3, hv', not_true_eq_false, if_true, if_false, List.cons_append, List.nil_append, decode, isCont]
        have a1 : ¬ (0xE0 + r / 4096 < 0x80) := by omega
        have a2 : ¬ (0xC2 ≤ 0xE0 + r / 4096 ∧ 0xE0 + r / 4096 ≤ 0xDF) := by omega
        have a3 : 0xE0 ≤ 0xE0 + r / 4096 ∧ 0xE0 + r / 4096 ≤ 0xEF := by omega
        simp only [a1, a2, a3, if_true, if_false, and_self]
        have c2 : (decide (0x80 ≤ 0x80 + r % 64) && decide (0x80 + r % 64 ≤ 0xBF)) = true := by
          simp; omega
        have c1 : (if 0xE0 + r / 4096 = 0xE0 then 0xA0 else 0x80) ≤ 0x80 + r / 64 % 64 ∧
            0x80 + r / 64 % 64 ≤ (if 0xE0 + r / 4096 = 0xED then 0x9F else 0xBF) := by
          constructor
          · split <;> omega
          · split <;> omega
        simp only [c1, c2, and_self, if_true]
        simp; omega
      · simp only [h1, h2, h3, hv', not_true_eq_false, if_true, if_false, List.cons_append, List.nil_append, decode, isCont]
        have a1 : ¬ (0xF0 + r / 262144 < 0x80) := by omega
        have a2 : ¬ (0xC2 ≤ 0xF0 + r / 262144 ∧ 0xF0 + r / 262144 ≤ 0xDF) := by omega
        have a3 : ¬ (0xE0 ≤ 0xF0 + r / 262144 ∧ 0xF0 + r / 262144 ≤ 0xEF) := by omega
        have a4 : 0xF0 ≤ 0xF0 + r / 262144 ∧ 0xF0 + r / 262144 ≤ 0xF4 := by omega
        simp only [a1, a2, a3, a4, if_true, if_false, and_self]
        have c2 : (decide (0x80 ≤ 0x80 + r / 64 % 64) && decide (0x80 + r / 64 % 64 ≤ 0xBF)) = true := by
          simp; omega
        have c3 : (decide (0x80 ≤ 0x80 + r % 64) && decide (0x80 + r % 64 ≤ 0xBF)) = true := by
          simp; omega
        have c1 : (if 0xF0 + r / 262144 = 0xF0 then 0x90 else 0x80) ≤ 0x80 + r / 4096 % 64 ∧
            0x80 + r / 4096 % 64 ≤ (if 0xF0 + r / 262144 = 0xF4 then 0x8F else 0xBF) := by
          constructor
          · split <;> omega
          · split <;> omega
        simp only [c1, c2, c3, and_self, if_true]
        simp; omega


theorem encode_length_pos (r : Nat) : 1 ≤ (encode r).length := by
  unfold encode; split <;> (try split) <;> (try split) <;> (try split) <;> simp

/-- the decoder always makes progress and never reads past the end -/
theorem decode_width (b : Nat) (bs : Bytes) :
    1 ≤ (decode (b :: bs)).2 ∧ (decode (b :: bs)).2 ≤ (b :: bs).length := by
  simp only [decode]
  repeat' split
  all_goals (simp <;> try omega)

/-- offsets of the runes of an encoded sequence: running sums of the encoded widths -/
def offsets : Nat → List Nat → List (Nat × Nat)
  | _, [] => []
  | off, r :: rs => (off, r) :: offsets (off + (encode r).length) rs

theorem runesAux_encodeAll (rs : List Nat) (hv : ∀ r ∈ rs, validRune r) (fuel off : Nat)
    (hf : (encodeAll rs).length ≤ fuel) :
    runesAux fuel off (encodeAll rs) = offsets off rs := by
  induction rs generalizing fuel off with
  | nil => cases fuel <;> simp [encodeAll, runesAux, offsets]
  | cons r rs ih =>
    have hr := hv r (by simp)
    have hpos := encode_length_pos r
    have hsplit : encodeAll (r :: rs) = encode r ++ encodeAll rs := by simp [encodeAll]
    rw [hsplit] at hf ⊢
    cases fuel with
    | zero => rw [List.length_append] at hf; omega
    | succ fuel =>
      cases hne : encode r ++ encodeAll rs with
      | nil =>
        have : (encode r ++ encodeAll rs).length = 0 := by rw [hne]; rfl
        rw [List.length_append] at this; omega
      | cons b t =>
        rw [← hne]
        have hd := decode_encode r (encodeAll rs) hr
        simp only [runesAux, hne]
        rw [← hne, hd]
        simp only [offsets]
        congr 1
        rw [List.drop_left]
        apply ih (fun x hx => hv x (by simp [hx]))
        rw [List.length_append] at hf; omega

/-- **range_roundtrip.** Ranging over the UTF-8 encoding of any sequence of Unicode scalar values
    yields exactly those values, each with the byte offset at which its encoding starts. -/
theorem range_roundtrip (rs : List Nat) (hv : ∀ r ∈ rs, validRune r) :
    runes (encodeAll rs) = offsets 0 rs :=
  runesAux_encodeAll rs hv _ 0 (Nat.le_refl _)

/-- **range_offsets.** For *every* byte sequence (valid UTF-8 or not) the offsets reported by
    `range` start at `off`, strictly increase, and stay inside the string. -/
theorem runesAux_offsets (fuel off : Nat) (s : Bytes) :
    ∀ p ∈ runesAux fuel off s, off ≤ p.1 ∧ p.1 < off + s.length := by
  induction fuel generalizing off s with
  | zero => simp [runesAux]
  | succ fuel ih =>
    cases s with
    | nil => simp [runesAux]
    | cons b t =>
      intro p hp
      have hw := decode_width b t
      simp only [runesAux, List.mem_cons] at hp
      rcases hp with rfl | hp
      · simp
      · have := ih _ _ p hp
        simp only [List.length_drop, List.length_cons] at this hw ⊢
        omega

theorem runesAux_sorted (fuel off : Nat) (s : Bytes) :
    (runesAux fuel off s).Pairwise (fun a b => a.1 < b.1) := by
  induction fuel generalizing off s with
  | zero => simp [runesAux]
  | succ fuel ih =>
    cases s with
    | nil => simp [runesAux]
    | cons b t =>
      have hw := decode_width b t
      simp only [runesAux, List.pairwise_cons]
      refine ⟨?_, ih _ _⟩
      intro p hp
      have := runesAux_offsets _ _ _ p hp
      simp only [List.length_drop, List.length_cons] at this hw ⊢
      omega

theorem range_offsets (s : Bytes) :
    (runes s).Pairwise (fun a b => a.1 < b.1) ∧ ∀ p ∈ runes s, p.1 < s.length := by
  refine ⟨runesAux_sorted _ _ _, ?_⟩
  intro p hp
  have := runesAux_offsets _ _ _ p hp
  omega

/-- the fuel (`len s`) never runs out: the loop ends because the bytes are used up. Stated as: with
    any larger fuel the result is the same. -/
theorem runesAux_fuel (fuel fuel' off : Nat) (s : Bytes) (h1 : s.length ≤ fuel) (h2 : s.length ≤ fuel') :
    runesAux fuel off s = runesAux fuel' off s := by
  induction fuel generalizing fuel' off s with
  | zero =>
    have : s = [] := by cases s <;> simp_all
    subst this; cases fuel' <;> simp [runesAux]
  | succ fuel ih =>
    cases s with
    | nil => cases fuel' <;> simp [runesAux]
    | cons b t =>
      cases fuel' with
      | zero => simp at h2
      | succ fuel' =>
        have hw := decode_width b t
        simp only [runesAux]
        congr 1
        apply ih
        · simp only [List.length_drop, List.length_cons] at h1 hw ⊢; omega
        · simp only [List.length_drop, List.length_cons] at h2 hw ⊢; omega

/-! ### byte-wise comparison is a strict total order -/

theorem lt_irrefl (a : Bytes) : lt a a = false := by
  induction a with
  | nil => rfl
  | cons x xs ih => simp [lt, ih]

theorem lt_trichotomy (a b : Bytes) : lt a b = true ∨ a = b ∨ lt b a = true := by
  induction a generalizing b with
  | nil => cases b <;> simp [lt]
  | cons x xs ih =>
    cases b with
    | nil => simp [lt]
    | cons y ys =>
      simp only [lt]
      by_cases h1 : x < y
      · simp [h1]
      · by_cases h2 : y < x
        · simp [h1, h2]
        · have : x = y := by omega
          subst this
          simp only [Nat.lt_irrefl, if_false]
          rcases ih ys with h | h | h
          · exact Or.inl h
          · exact Or.inr (Or.inl (by rw [h]))
          · exact Or.inr (Or.inr h)

theorem lt_asymm (a b : Bytes) (h : lt a b = true) : lt b a = false := by
  induction a generalizing b with
  | nil => cases b <;> simp_all [lt]
  | cons x xs ih =>
    cases b with
    | nil => simp [lt] at h
    | cons y ys =>
      simp only [lt] at h ⊢
      by_cases h1 : x < y
      · have : ¬ y < x := by omega
        simp [this, h1]
      · by_cases h2 : y < x
        · simp [h1, h2] at h
        · simp only [h1, h2, if_false] at h ⊢
          exact ih ys h

theorem lt_trans (a b c : Bytes) (h1 : lt a b = true) (h2 : lt b c = true) : lt a c = true := by
  induction a generalizing b c with
  | nil =>
    cases c with
    | nil => cases b <;> simp_all [lt]
    | cons _ _ => rfl
  | cons x xs ih =>
    cases b with
    | nil => simp [lt] at h1
    | cons y ys =>
      cases c with
      | nil => simp [lt] at h2
      | cons z zs =>
        simp only [lt] at h1 h2 ⊢
        by_cases a1 : x < y
        · by_cases b1 : y < z
          · have : x < z := by omega
            simp [this]
          · by_cases b2 : z < y
            · simp [b1, b2] at h2
            · have : y = z := by omega
              subst this; simp [a1]
        · by_cases a2 : y < x
          · simp [a1, a2] at h1
          · have : x = y := by omega
            subst this
            simp only [a1, if_false] at h1
            by_cases b1 : x < z
            · simp [b1]
            · by_cases b2 : z < x
              · simp [b1, b2] at h2
              · simp only [b1, b2, if_false] at h2 ⊢
                exact ih ys zs h1 h2

/-- a proper prefix is smaller; the first differing byte decides -/
theorem lt_prefix (a : Bytes) (b : Nat) (bs : Bytes) : lt a (a ++ b :: bs) = true := by
  induction a with
  | nil => rfl
  | cons x xs ih => simp [lt, ih]

theorem lt_first_diff (p : Bytes) (x y : Nat) (s t : Bytes) (h : x < y) :
    lt (p ++ x :: s) (p ++ y :: t) = true := by
  induction p with
  | nil => simp [lt, h]
  | cons z zs ih => simp [lt, ih]

/-! ### indexing, slicing and concatenation count bytes and never alter their operands -/

theorem slice_length (s t : Bytes) (i j : Nat) (h : slice s i j = some t) : t.length = j - i := by
  unfold slice at h
  split at h
  · cases h; simp; omega
  · cases h

theorem slice_index (s t : Bytes) (i j k : Nat) (h : slice s i j = some t) (hk : k < j - i) :
    index t k = index s (i + k) := by
  unfold slice at h
  split at h
  · cases h
    simp [index, List.getElem?_take, hk]
  · cases h

theorem slice_join (s : Bytes) (i j k : Nat) (hij : i ≤ j) (hjk : j ≤ k) (hk : k ≤ s.length) :
    (do let a ← slice s i j; let b ← slice s j k; pure (a ++ b)) = slice s i k := by
  have h1 : i ≤ j ∧ j ≤ s.length := by omega
  have h2 : j ≤ k ∧ k ≤ s.length := by omega
  have h3 : i ≤ k ∧ k ≤ s.length := by omega
  simp only [slice, h1, h2, h3, and_self, if_true, bind, Option.bind, pure]
  congr 1
  apply List.ext_getElem?
  intro n
  simp only [List.getElem?_append, List.length_take, List.length_drop, List.getElem?_take, List.getElem?_drop]
  by_cases hn : n < j - i
  · have : n < min (j - i) (s.length - i) := by omega
    have hn' : n < k - i := by omega
    simp [this, hn, hn']
  · have : ¬ n < min (j - i) (s.length - i) := by omega
    simp only [this, if_false]
    have e : min (j - i) (s.length - i) = j - i := by omega
    rw [e]
    by_cases hn2 : n < k - i
    · have : n - (j - i) < k - j := by omega
      simp only [this, hn2, if_true]
      congr 1; omega
    · have : ¬ n - (j - i) < k - j := by omega
      simp [this, hn2]

theorem slice_out_of_range (s : Bytes) (i j : Nat) (h : j < i ∨ s.length < j) : slice s i j = none := by
  unfold slice
  have : ¬ (i ≤ j ∧ j ≤ s.length) := by omega
  simp [this]

theorem index_out_of_range (s : Bytes) (i : Nat) (h : s.length ≤ i) : index s i = none := by
  simp [index, h]

theorem concat_index (a b : Bytes) (i : Nat) :
    index (a ++ b) i = if i < a.length then index a i else index b (i - a.length) := by
  unfold index
  split
  · rw [List.getElem?_append_left (by assumption)]
  · rw [List.getElem?_append_right (by omega)]

theorem concat_slices (a b : Bytes) :
    slice (a ++ b) 0 a.length = some a ∧ slice (a ++ b) a.length (a ++ b).length = some b := by
  unfold slice
  simp

/-! ### literals -/

def IsBytes (bs : Bytes) : Prop := ∀ b ∈ bs, b < 256

theorem hexVal_hexDigit (d : Nat) (h : d < 16) : hexVal (hexDigit d) = some d := by
  unfold hexDigit hexVal
  by_cases h1 : d < 10
  · have : 48 ≤ 48 + d ∧ 48 + d ≤ 57 := by omega
    simp [h1, this]
  · have a : ¬ (48 ≤ 87 + d ∧ 87 + d ≤ 57) := by omega
    have b : 97 ≤ 87 + d ∧ 87 + d ≤ 102 := by omega
    simp [h1, a, b]

/-- **unquote_quote.** Every byte sequence has a literal spelling (all bytes as `\xHH`) that the
    decoder maps back to exactly that byte sequence: no byte is unreachable or altered by literal
    decoding. -/
theorem unquote_quoteAll (bs : Bytes) (hb : IsBytes bs) (fuel : Nat) (hf : bs.length < fuel) :
    unescape 34 fuel (quoteAll bs) = some bs := by
  induction bs generalizing fuel with
  | nil => cases fuel with
    | zero => omega
    | succ f => simp [quoteAll, unescape]
  | cons b t ih =>
    cases fuel with
    | zero => omega
    | succ f =>
      have hb' : b < 256 := hb b (by simp)
      have e : quoteAll (b :: t) = 92 :: 120 :: hexDigit (b / 16) :: hexDigit (b % 16) :: quoteAll t := by
        simp [quoteAll, quoteByte]
      rw [e]
      have h1 := hexVal_hexDigit (b / 16) (by omega)
      have h2 := hexVal_hexDigit (b % 16) (by omega)
      have iht := ih (fun x hx => hb x (by simp [hx])) f (by simp at hf; omega)
      simp [unescape, hexN, h1, h2, iht]
      omega

theorem unquoteString_quoteAll (bs : Bytes) (hb : IsBytes bs) : unquoteString (quoteAll bs) = some bs := by
  unfold unquoteString
  apply unquote_quoteAll bs hb
  have : (quoteAll bs).length = 4 * bs.length := by
    induction bs with
    | nil => rfl
    | cons b t ih =>
      have := ih (fun x hx => hb x (by simp [hx]))
      simp [quoteAll, quoteByte] at this ⊢
      omega
  omega

/-! ### non-vacuity -/

/-! ### conversions between strings and rune slices -/

theorem decode_valid (bs : Bytes) : validRune (decode bs).1 := by
  unfold decode
  repeat' split
  all_goals simp only [validRune, runeError, isCont, Bool.and_eq_true, decide_eq_true_eq] at *
  all_goals (repeat' split)
  all_goals (first | omega | (simp only [] at *; omega) | (simp at *; omega))

theorem runesAux_valid (fuel off : Nat) (s : Bytes) : ∀ p ∈ runesAux fuel off s, validRune p.2 := by
  induction fuel generalizing off s with
  | zero => intro p hp; simp [runesAux] at hp
  | succ f ih =>
    cases s with
    | nil => intro p hp; simp [runesAux] at hp
    | cons b bs =>
      intro p hp
      simp only [runesAux, List.mem_cons] at hp
      rcases hp with rfl | hp
      · exact decode_valid _
      · exact ih _ _ p hp

/-- **toRunes_valid.** Whatever the bytes are, `[]rune(s)` holds Unicode scalar values only (invalid
    sequences give U+FFFD). -/
theorem toRunes_valid (s : Bytes) : ∀ r ∈ toRunes s, validRune r := by
  intro r hr
  simp only [toRunes, List.mem_map] at hr
  obtain ⟨p, hp, rfl⟩ := hr
  exact runesAux_valid _ _ _ p hp

theorem offsets_snd (off : Nat) (rs : List Nat) : (offsets off rs).map Prod.snd = rs := by
  induction rs generalizing off with
  | nil => rfl
  | cons r rs ih => simp [offsets, ih]

/-- **runes_of_string.** `[]rune(string(rs)) = rs` for every sequence of Unicode scalar values. -/
theorem runes_of_string (rs : List Nat) (hv : ∀ r ∈ rs, validRune r) : toRunes (encodeAll rs) = rs := by
  simp only [toRunes, range_roundtrip rs hv, offsets_snd]

/-- **rune_conversion_idempotent.** For EVERY byte string, converting to runes and back and to runes
    again changes nothing: `[]rune(string([]rune(s))) = []rune(s)`. -/
theorem rune_conversion_idempotent (s : Bytes) : toRunes (encodeAll (toRunes s)) = toRunes s :=
  runes_of_string _ (toRunes_valid s)

example : toRunes [0x68, 0xC3, 0xA9, 0xFF] = [0x68, 0xE9, 0xFFFD] := by decide


-- "héllo": h é(C3 A9) l l o
example : runes [0x68, 0xC3, 0xA9, 0x6C, 0x6C, 0x6F] = [(0, 0x68), (1, 0xE9), (3, 0x6C), (4, 0x6C), (5, 0x6F)] := by decide
-- invalid byte: a FF b → offsets 0 1 2, U+FFFD in the middle
example : runes [0x61, 0xFF, 0x62] = [(0, 0x61), (1, 0xFFFD), (2, 0x62)] := by decide
example : encode 0x1F410 = [0xF0, 0x9F, 0x90, 0x90] := by decide
example : validRune 0x1F410 ∧ validRune 0xE9 := by decide
example : unquoteString [92, 110, 104, 92, 120, 102, 102] = some [10, 104, 255] := by decide
example : lt [1, 2] [1, 2, 0] = true ∧ lt [1, 200] [2] = true := by decide

end Goat.Props.C13

#print axioms Goat.Props.C13.decode_encode
#print axioms Goat.Props.C13.range_roundtrip
#print axioms Goat.Props.C13.range_offsets
#print axioms Goat.Props.C13.runesAux_fuel
#print axioms Goat.Props.C13.lt_irrefl
#print axioms Goat.Props.C13.lt_trichotomy
#print axioms Goat.Props.C13.lt_asymm
#print axioms Goat.Props.C13.lt_trans
#print axioms Goat.Props.C13.lt_prefix
#print axioms Goat.Props.C13.lt_first_diff
#print axioms Goat.Props.C13.slice_length
#print axioms Goat.Props.C13.slice_index
#print axioms Goat.Props.C13.slice_join
#print axioms Goat.Props.C13.slice_out_of_range
#print axioms Goat.Props.C13.index_out_of_range
#print axioms Goat.Props.C13.concat_index
#print axioms Goat.Props.C13.concat_slices
#print axioms Goat.Props.C13.unquoteString_quoteAll
#print axioms Goat.Props.C13.toRunes_valid
#print axioms Goat.Props.C13.runes_of_string
#print axioms Goat.Props.C13.rune_conversion_idempotent
