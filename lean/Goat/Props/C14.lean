import Goat.Model.Print
/-!
# C14 — printed values look as Go prints them, and printing always terminates

* `safeV_eq_go` / `str_eq_go` — a well-typed value whose type cannot reach a struct reference
  (scalars, and slices / single-entry maps of such values, nested to **any** depth) is rendered
  exactly as the `%v` specification `goFmt` renders it: the cycle cut never fires on it.
* `println_format` — operands are separated by exactly one space and followed by a newline.
* `struct_fields_in_order` — a struct reference renders as `&{F1:v1 F2:v2 …}` in declaration order.
* `cut_unsafe_slice`, `cut_unsafe_struct` — what the cycle cut prints.
* termination: `str`, `safe`, `safeV` are total functions of an arbitrary heap (accepted by
  Lean's structural termination checker without fuel); the examples render self-referential
  and mutually referential object graphs.
-/
namespace Goat.Props.C14
open Goat.Print

mutual
theorem safeV_eq_go : ∀ (v : Val), WT v = true → v.ty.safe = true → safeV v = goFmt v
  | .scalar _, _, _ => rfl
  | .slice ty es, hw, hs => by
    cases ty with
    | slice e =>
      have hw' : WTs e es = true := by simpa [WT] using hw
      have hs' : e.safe = true := by simpa [Val.ty, Ty.safe] using hs
      have ⟨h1, h2⟩ := safeVs_eq_go e es hw' hs'
      simp [safeV, goFmt, h1, h2]
    | scalar => simp [WT] at hw
    | map _ => simp [WT] at hw
    | struct => simp [WT] at hw
  | .map1 ty k v, hw, hs => by
    cases ty with
    | map e =>
      have hw' : v.ty = e ∧ WT v = true := by simpa [WT] using hw
      have hs' : e.safe = true := by simpa [Val.ty, Ty.safe] using hs
      have hv : v.ty.safe = true := by rw [hw'.1]; exact hs'
      simp [safeV, goFmt, hv, safeV_eq_go v hw'.2 hv]
    | scalar => simp [WT] at hw
    | slice _ => simp [WT] at hw
    | struct => simp [WT] at hw
  | .map0 _, _, _ => rfl
  | .ref _, _, hs => by simp [Val.ty, Ty.safe] at hs
  | .nilRef, _, hs => by simp [Val.ty, Ty.safe] at hs
theorem safeVs_eq_go : ∀ (e : Ty) (es : Vals), WTs e es = true → e.safe = true →
    anyUnsafe es = false ∧ safeVs es = goFmts es
  | _, .nil, _, _ => ⟨rfl, rfl⟩
  | e, .cons v vs, hw, hs => by
    have hw' : (v.ty = e ∧ WT v = true) ∧ WTs e vs = true := by simpa [WTs] using hw
    have hv : v.ty.safe = true := by rw [hw'.1.1]; exact hs
    have ⟨h1, h2⟩ := safeVs_eq_go e vs hw'.2 hs
    simp [anyUnsafe, safeVs, goFmts, hv, h1, h2, safeV_eq_go v hw'.1.2 hv]
end

theorem safe_eq_safeV (h : Heap) (v : Val) (hs : v.ty.safe = true) : safe h v = safeV v := by
  cases v <;> simp_all [safe, Val.ty, Ty.safe]

theorem safes_eq_go (h : Heap) (e : Ty) : ∀ (es : Vals), WTs e es = true → e.safe = true →
    safes h es = goFmts es
  | .nil, _, _ => rfl
  | .cons v vs, hw, hs => by
    have hw' : (v.ty = e ∧ WT v = true) ∧ WTs e vs = true := by simpa [WTs] using hw
    have hv : v.ty.safe = true := by rw [hw'.1.1]; exact hs
    simp [safes, goFmts, safe_eq_safeV h v hv, safeV_eq_go v hw'.1.2 hv, safes_eq_go h e vs hw'.2 hs]

/-- **str_eq_go.** `Value.String()` of any well-typed value built from scalars, slices and
    single-entry maps — nested to any depth, on any heap — is Go's `%v` rendering. -/
theorem str_eq_go (h : Heap) (v : Val) (hw : WT v = true) (hs : v.ty.safe = true) : str h v = goFmt v := by
  cases v with
  | scalar _ => rfl
  | slice ty es =>
    cases ty with
    | slice e =>
      have hw' : WTs e es = true := by simpa [WT] using hw
      have hs' : e.safe = true := by simpa [Val.ty, Ty.safe] using hs
      simp [str, goFmt, safes_eq_go h e es hw' hs']
    | scalar => simp [WT] at hw
    | map _ => simp [WT] at hw
    | struct => simp [WT] at hw
  | map1 ty k v =>
    cases ty with
    | map e =>
      have hw' : v.ty = e ∧ WT v = true := by simpa [WT] using hw
      have hs' : e.safe = true := by simpa [Val.ty, Ty.safe] using hs
      have hv : v.ty.safe = true := by rw [hw'.1]; exact hs'
      simp [str, goFmt, safe_eq_safeV h v hv, safeV_eq_go v hw'.2 hv]
    | scalar => simp [WT] at hw
    | slice _ => simp [WT] at hw
    | struct => simp [WT] at hw
  | map0 _ => rfl
  | ref _ => simp [Val.ty, Ty.safe] at hs
  | nilRef => simp [Val.ty, Ty.safe] at hs

/-- **println_format.** -/
theorem println_format (h : Heap) (vs : List Val) :
    println h vs = " ".intercalate (vs.map (str h)) ++ "\n" := rfl

/-- **struct_fields_in_order.** -/
theorem struct_fields_in_order (h : Heap) (a : Nat) (fields : Obj) (ha : h[a]? = some fields) :
    str h (.ref a) = "&{" ++ " ".intercalate (fields.map fun f => f.1 ++ ":" ++ safe h f.2) ++ "}" := by
  simp [str, ha, join]

/-- the cycle cut: a nested object with a field that could lead to another object prints `&{...}` -/
theorem cut_unsafe_struct (h : Heap) (a : Nat) (fields : Obj) (ha : h[a]? = some fields)
    (hu : fields.any (fun f => !f.2.ty.safe) = true) : safe h (.ref a) = "&{...}" := by
  simp only [safe, ha, hu, if_true]

theorem cut_unsafe_slice (ty : Ty) (es : Vals) (hu : anyUnsafe es = true) : safeV (.slice ty es) = "[...]" := by
  simp [safeV, hu]

/-! ### self-containing containers: rendering terminates on every container heap -/

theorem mapM_some_of_forall {α β : Type} (f : α → Option β) (l : List α) (h : ∀ x ∈ l, (f x).isSome) :
    (l.mapM f).isSome := by
  induction l with
  | nil => simp
  | cons x xs ih =>
    have hx := h x (by simp)
    have hxs := ih (fun y hy => h y (by simp [hy]))
    cases hfx : f x with
    | none => simp [hfx] at hx
    | some b =>
      cases hm : xs.mapM f with
      | none => simp [hm] at hxs
      | some bs => simp [List.mapM_cons, hfx, hm]

/-- **cyc_total.** On any container heap — cyclic or not — rendering with the path cut never runs
    out of fuel as soon as the fuel exceeds the number of containers not yet on the path: the
    recursion is bounded by the heap, not by the data's (infinite) unfolding. -/
theorem cyc_total (h : CHeap) : ∀ (fuel : Nat) (path : List Nat) (v : CVal),
    path.Nodup → (∀ a ∈ path, a < h.length) → h.length < fuel + path.length →
    (renderC h fuel path v).isSome := by
  intro fuel
  induction fuel with
  | zero =>
    intro path v hnd hin hf
    exfalso
    have : path.length ≤ h.length := by
      have hsub : path ⊆ List.range h.length := fun a ha => List.mem_range.mpr (hin a ha)
      have := hnd.length_le_of_subset hsub
      simpa using this
    omega
  | succ fuel ih =>
    intro path v hnd hin hf
    cases v with
    | int n => simp [renderC]
    | cref a =>
      simp only [renderC]
      by_cases hp : a ∈ path
      · simp [hp]
      · simp only [hp, if_false]
        cases ha : h[a]? with
        | none => simp
        | some elems =>
          have halt : a < h.length := (List.getElem?_eq_some_iff.mp ha).1
          have := mapM_some_of_forall (renderC h fuel (a :: path)) elems (fun x _ =>
            ih (a :: path) x (List.nodup_cons.mpr ⟨hp, hnd⟩)
              (fun b hb => by
                rcases List.mem_cons.mp hb with rfl | hb'
                · exact halt
                · exact hin b hb')
              (by simp only [List.length_cons]; omega))
          cases hm : elems.mapM (renderC h fuel (a :: path)) with
          | none => simp [hm] at this
          | some parts => simp [hm]

/-- top level: fuel `heap size + 1` always suffices -/
theorem cyc_render_total (h : CHeap) (v : CVal) : (renderC h (h.length + 1) [] v).isSome :=
  cyc_total h _ [] v List.nodup_nil (by simp) (by simp)

/-- a slice whose first element is the slice itself, and two slices containing each other -/
example : renderC [[.cref 0, .int 2]] 2 [] (.cref 0) = some "[[...] 2]" := by decide
example : renderC [[.cref 1, .int 1], [.cref 0, .cref 1]] 3 [] (.cref 0) = some "[[[...] [...]] 1]" := by decide

/-! ### non-vacuity: deep nesting, and cyclic object graphs on which rendering still terminates -/

def i (n : Int) : Val := .scalar (.int n)
def L (t : Ty) (l : List Val) : Val := .slice (.slice t) (l.foldr Vals.cons Vals.nil)

/-- `[][][]int{{{1, 2}, {3}}, {{4}}}` -/
def deep : Val :=
  L (.slice (.slice .scalar)) [L (.slice .scalar) [L .scalar [i 1, i 2], L .scalar [i 3]], L (.slice .scalar) [L .scalar [i 4]]]

example : WT deep = true ∧ deep.ty.safe = true := by decide
example : str [] deep = "[[[1 2] [3]] [[4]]]" := by decide

/-- `t := &T{A: 1}; t.F = t` — a self-loop -/
def selfLoop : Heap := [[("A", i 1), ("F", .ref 0)]]
example : str selfLoop (.ref 0) = "&{A:1 F:&{...}}" := by decide

/-- two objects pointing at each other, one also holding a slice of both -/
def twoCycle : Heap :=
  [[("N", i 0), ("P", .ref 1)], [("N", i 1), ("P", .ref 0), ("Q", .slice (.slice .struct) (.cons (.ref 0) (.cons (.ref 1) .nil)))]]
example : str twoCycle (.ref 1) = "&{N:1 P:&{...} Q:[...]}" := by decide
example : str twoCycle (.slice (.slice .struct) (.cons (.ref 0) (.cons .nilRef .nil))) = "[&{...} nil]" := by decide

/-- a nested object with only scalar and scalar-container fields prints in full -/
def leaf : Heap := [[("A", i 7), ("L", L .scalar [i 1, i 2])], [("In", .ref 0)]]
example : str leaf (.ref 1) = "&{In:&{A:7 L:[1 2]}}" := by decide

example : fmtFloat (.fin false [1] 21) = "1e+21" ∧ fmtFloat (.fin false [1] 6) = "1e+06" ∧ fmtFloat (.fin false [1] 5) = "100000"
    ∧ fmtFloat (.fin false [1, 2] 100) = "1.2e+100"
    ∧ fmtFloat (.fin false [1] (-5)) = "1e-05" ∧ fmtFloat (.fin false [1] (-4)) = "0.0001"
    ∧ fmtFloat (.fin true [0] 0) = "-0" ∧ fmtFloat (.fin false [1, 5] 0) = "1.5"
    ∧ fmtFloat (.fin false [1, 2, 3, 4, 5] 2) = "123.45" := by decide

end Goat.Props.C14

#print axioms Goat.Props.C14.safeV_eq_go
#print axioms Goat.Props.C14.str_eq_go
#print axioms Goat.Props.C14.println_format
#print axioms Goat.Props.C14.struct_fields_in_order
#print axioms Goat.Props.C14.cut_unsafe_struct
#print axioms Goat.Props.C14.cut_unsafe_slice
#print axioms Goat.Props.C14.cyc_total
#print axioms Goat.Props.C14.cyc_render_total
