import Goat.Model.Load
/-!
# C15 — packages initialise once each, dependencies first, for any import graph

Theorems about the ordering loop of `loadImports` (`Goat.Load.order`), for every number of
packages and every dependency relation. `deps k` is the list of packages `k` imports.
-/
namespace Goat.Props.C15
open Goat.Load

/-- nothing a package depends on comes at or after it in the run order -/
def DepsFirst (deps : String → List String) : List String → Prop
  | [] => True
  | p :: t => (∀ b ∈ deps p, b ∉ p :: t) ∧ DepsFirst deps t

/-- the graph restricted to `keys` is acyclic, stated constructively: there is a rank that
    strictly decreases along every import edge -/
def HasRank (keys : List String) (deps : String → List String) : Prop :=
  ∃ rank : String → Nat, ∀ k ∈ keys, ∀ d ∈ deps k, rank d < rank k

/-- every imported package is itself one of the discovered packages -/
def Closed (keys : List String) (deps : String → List String) : Prop :=
  ∀ k ∈ keys, ∀ d ∈ deps k, d ∈ keys

theorem pick_some {keys : List String} {deps : String → List String} {p : String}
    (h : pick keys deps = some p) : p ∈ keys ∧ deps p = [] := by
  unfold pick at h
  exact ⟨List.mem_of_find?_eq_some h, by simpa using List.find?_some h⟩

/-- **deterministic tie-break**: the package taken is the first eligible one in the (sorted) list -/
theorem pick_first {keys : List String} {deps : String → List String} {p : String}
    (h : pick keys deps = some p) :
    ∃ l1 l2, keys = l1 ++ p :: l2 ∧ ∀ k ∈ l1, deps k ≠ [] := by
  unfold pick at h
  obtain ⟨_, l1, l2, e, hn⟩ := List.find?_eq_some_iff_append.mp h
  exact ⟨l1, l2, e, fun k hk => by simpa using hn k hk⟩

theorem mem_dropDep {deps : String → List String} {p k d : String} :
    d ∈ dropDep deps p k ↔ d ∈ deps k ∧ d ≠ p := by
  simp [dropDep, List.mem_filter]

private theorem depsFirst_of_filter (deps : String → List String) (p : String) :
    ∀ t : List String, p ∉ t → DepsFirst (dropDep deps p) t → DepsFirst deps t := by
  intro t
  induction t with
  | nil => intros; trivial
  | cons q t ih =>
    intro hp hd
    refine ⟨?_, ih (fun h => hp (List.mem_cons_of_mem _ h)) hd.2⟩
    intro b hb
    by_cases hbp : b = p
    · subst hbp; exact hp
    · exact hd.1 b (mem_dropDep.mpr ⟨hb, hbp⟩)

/-- **each package once, dependencies first**: when the loop succeeds its result lists every
    discovered package exactly once and no package comes before something it imports -/
theorem order_sound : ∀ (n : Nat) (keys : List String) (deps : String → List String) (l : List String),
    keys.Nodup → order n keys deps = .ok l → l.Perm keys ∧ l.Nodup ∧ DepsFirst deps l := by
  intro n
  induction n with
  | zero =>
    intro keys deps l _ h
    cases keys with
    | nil => simp [order] at h; subst h; exact ⟨List.Perm.refl _, List.nodup_nil, trivial⟩
    | cons a t => simp [order] at h
  | succ n ih =>
    intro keys deps l hnd h
    cases keys with
    | nil => simp [order] at h; subst h; exact ⟨List.Perm.refl _, List.nodup_nil, trivial⟩
    | cons a t =>
      rw [order] at h
      cases hp : pick (a :: t) deps with
      | none => simp [hp] at h
      | some p =>
        simp only [hp] at h
        cases ho : order n ((a :: t).erase p) (dropDep deps p) with
        | error e => simp [ho] at h
        | ok l' =>
          simp only [ho] at h
          cases h
          obtain ⟨hmem, hnil⟩ := pick_some hp
          obtain ⟨hperm, hnd', hdf⟩ := ih _ _ l' (hnd.erase p) ho
          have hpl : p ∉ l' := fun hm =>
            ((List.Nodup.mem_erase_iff hnd).mp (hperm.mem_iff.mp hm)).1 rfl
          refine ⟨?_, List.nodup_cons.mpr ⟨hpl, hnd'⟩, ⟨by simp [hnil], depsFirst_of_filter deps p l' hpl hdf⟩⟩
          exact (List.Perm.cons p hperm).trans (List.perm_cons_erase hmem).symm

private theorem exists_min_rank (rank : String → Nat) :
    ∀ keys : List String, keys ≠ [] → ∃ k ∈ keys, ∀ k' ∈ keys, rank k ≤ rank k' := by
  intro keys
  induction keys with
  | nil => intro h; exact absurd rfl h
  | cons a t ih =>
    intro _
    by_cases ht : t = []
    · subst ht; exact ⟨a, by simp, by simp⟩
    · obtain ⟨k, hk, hmin⟩ := ih ht
      by_cases hle : rank a ≤ rank k
      · refine ⟨a, by simp, ?_⟩
        intro k' hk'
        rcases List.mem_cons.mp hk' with rfl | hk'
        · exact Nat.le_refl _
        · exact Nat.le_trans hle (hmin k' hk')
      · refine ⟨k, List.mem_cons_of_mem _ hk, ?_⟩
        intro k' hk'
        rcases List.mem_cons.mp hk' with rfl | hk'
        · omega
        · exact hmin k' hk'

/-- **every acyclic graph is ordered**: with enough fuel (the number of packages) the loop
    succeeds whenever the import relation has no cycle -/
theorem order_complete : ∀ (n : Nat) (keys : List String) (deps : String → List String),
    keys.length ≤ n → Closed keys deps → HasRank keys deps → ∃ l, order n keys deps = .ok l := by
  intro n
  induction n with
  | zero =>
    intro keys deps hl _ _
    have : keys = [] := List.length_eq_zero_iff.mp (by omega)
    subst this; exact ⟨[], by simp [order]⟩
  | succ n ih =>
    intro keys deps hl hc hr
    cases keys with
    | nil => exact ⟨[], by simp [order]⟩
    | cons a t =>
      obtain ⟨rank, hrank⟩ := hr
      obtain ⟨k, hk, hmin⟩ := exists_min_rank rank (a :: t) (by simp)
      have hknil : deps k = [] := by
        cases hd : deps k with
        | nil => rfl
        | cons d ds =>
          have hdm : d ∈ deps k := by simp [hd]
          have := hmin d (hc k hk d hdm)
          have := hrank k hk d hdm
          omega
      have hsome : (pick (a :: t) deps).isSome := by
        unfold pick
        rw [List.find?_isSome]
        exact ⟨k, hk, by simp [hknil]⟩
      obtain ⟨p, hp⟩ := Option.isSome_iff_exists.mp hsome
      obtain ⟨hmem, _⟩ := pick_some hp
      have hlen : ((a :: t).erase p).length ≤ n := by
        rw [List.length_erase_of_mem hmem]; simp at hl ⊢; omega
      have hc' : Closed ((a :: t).erase p) (dropDep deps p) := by
        intro k hk d hd
        obtain ⟨hd1, hd2⟩ := mem_dropDep.mp hd
        exact (List.mem_erase_of_ne hd2).mpr (hc k (List.mem_of_mem_erase hk) d hd1)
      have hr' : HasRank ((a :: t).erase p) (dropDep deps p) :=
        ⟨rank, fun k hk d hd => hrank k (List.mem_of_mem_erase hk) d (mem_dropDep.mp hd).1⟩
      obtain ⟨l, hl'⟩ := ih _ _ hlen hc' hr'
      exact ⟨p :: l, by rw [order]; simp [hp, hl']⟩

/-- fuel equal to the number of packages is always enough: the loop never stops for lack of it -/
theorem order_never_out_of_fuel : ∀ (n : Nat) (keys : List String) (deps : String → List String),
    keys.length ≤ n → order n keys deps ≠ .error .fuel := by
  intro n
  induction n with
  | zero =>
    intro keys deps hl
    have : keys = [] := List.length_eq_zero_iff.mp (by omega)
    subst this; simp [order]
  | succ n ih =>
    intro keys deps hl
    cases keys with
    | nil => simp [order]
    | cons a t =>
      rw [order]
      cases hp : pick (a :: t) deps with
      | none => simp
      | some p =>
        obtain ⟨hmem, _⟩ := pick_some hp
        have hlen : ((a :: t).erase p).length ≤ n := by
          rw [List.length_erase_of_mem hmem]; simp at hl ⊢; omega
        have := ih ((a :: t).erase p) (dropDep deps p) hlen
        dsimp only
        cases ho : order n ((a :: t).erase p) (dropDep deps p) with
        | ok l => simp
        | error e =>
          intro he
          injection he with he
          subst he
          exact this ho

private theorem idx_lt (deps : String → List String) :
    ∀ l : List String, l.Nodup → DepsFirst deps l →
      ∀ k ∈ l, ∀ d ∈ deps k, d ∈ l → l.idxOf d < l.idxOf k := by
  intro l
  induction l with
  | nil => intro _ _ k hk; cases hk
  | cons p t ih =>
    intro hnd hdf k hk d hd hdl
    have hpt : p ∉ t := (List.nodup_cons.mp hnd).1
    rcases List.mem_cons.mp hk with rfl | hk
    · exact absurd hdl (hdf.1 d hd)
    · have hkp : k ≠ p := fun e => hpt (e ▸ hk)
      have e1 : (p == k) = false := by simpa using hkp.symm
      rcases List.mem_cons.mp hdl with rfl | hdl
      · simp [List.idxOf_cons, e1]
      · have hdp : d ≠ p := fun e => hpt (e ▸ hdl)
        have e2 : (p == d) = false := by simpa using hdp.symm
        have := ih (List.nodup_cons.mp hnd).2 hdf.2 k hk d hd hdl
        simp only [List.idxOf_cons, e1, e2, cond_false]
        omega

/-- **error ⇔ no valid initialisation order exists**: on a closed graph the loop succeeds exactly
    when the import relation is acyclic; otherwise it reports an import cycle (never anything else) -/
theorem order_ok_iff_acyclic (keys : List String) (deps : String → List String)
    (hnd : keys.Nodup) (hc : Closed keys deps) :
    (∃ l, order keys.length keys deps = .ok l) ↔ HasRank keys deps := by
  constructor
  · rintro ⟨l, hl⟩
    obtain ⟨hperm, hndl, hdf⟩ := order_sound _ _ _ l hnd hl
    refine ⟨fun k => l.idxOf k, ?_⟩
    intro k hk d hd
    exact idx_lt deps l hndl hdf k (hperm.mem_iff.mpr hk) d hd (hperm.mem_iff.mpr (hc k hk d hd))
  · exact order_complete _ _ _ (Nat.le_refl _) hc

theorem cycle_is_error (keys : List String) (deps : String → List String)
    (hnd : keys.Nodup) (hc : Closed keys deps) (h : ¬ HasRank keys deps) :
    order keys.length keys deps = .error .cycle := by
  cases ho : order keys.length keys deps with
  | ok l => exact absurd ((order_ok_iff_acyclic keys deps hnd hc).mp ⟨l, ho⟩) h
  | error e =>
    cases e with
    | cycle => rfl
    | fuel => exact absurd ho (order_never_out_of_fuel _ _ _ (Nat.le_refl _))

/-- a chain of imports inside the discovered packages -/
inductive Path (keys : List String) (deps : String → List String) : String → String → Prop
  | edge {a b} : a ∈ keys → b ∈ deps a → Path keys deps a b
  | trans {a b c} : Path keys deps a b → b ∈ keys → Path keys deps b c → Path keys deps a c

/-- an import cycle (a package reaching itself, a self-import included) rules out every rank, so
    by `cycle_is_error` the loader reports it -/
theorem cycle_no_rank (keys : List String) (deps : String → List String) (a : String)
    (h : Path keys deps a a) : ¬ HasRank keys deps := by
  rintro ⟨rank, hr⟩
  have : ∀ x y, Path keys deps x y → rank y < rank x := by
    intro x y hp
    induction hp with
    | edge ha hb => exact hr _ ha _ hb
    | trans _ _ _ ih1 ih2 => omega
  exact absurd (this a a h) (Nat.lt_irrefl _)

/-! ### non-vacuity: a diamond with a shared leaf, and a two-package cycle -/

def diamond : Imports := [("app", ["left", "right", "fmt"]), ("left", ["base"]), ("right", ["base"]), ("base", [])]
def cyc : Imports := [("a", ["b"]), ("b", ["a"])]

example : loadOrder diamond "app" = .ok ["base", "fmt", "left", "right", "app"] := by rfl
example : loadOrder cyc "a" = .error .cycle := by rfl
example : loadOrder [("a", ["a"])] "a" = .error .cycle := by rfl
example : HasRank ["app", "base", "fmt", "left", "right"] (importsOf diamond) :=
  ⟨fun k => if k = "app" then 2 else if k = "left" ∨ k = "right" then 1 else 0, by decide⟩

end Goat.Props.C15

#print axioms Goat.Props.C15.pick_first
#print axioms Goat.Props.C15.order_sound
#print axioms Goat.Props.C15.order_complete
#print axioms Goat.Props.C15.order_never_out_of_fuel
#print axioms Goat.Props.C15.order_ok_iff_acyclic
#print axioms Goat.Props.C15.cycle_is_error
#print axioms Goat.Props.C15.cycle_no_rank
