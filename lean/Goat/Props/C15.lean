import Goat.Model.Load
/-!
# C15 — packages initialise once each, dependencies first, for any import graph

Theorems about the ordering loop of `loadImports` (`Goat.Load.order`), for every number of
packages and every dependency relation. `deps k` is the list of packages `k` imports.
-/
namespace Goat.Props.C15
open Goat.Load

/-- nothing a package depends on comes at or after it in the run order -/
def DepsFirst (deps : String → List String) : List String → Prop
  | [] => True
  | p :: t => (∀ b ∈ deps p, b ∉ p :: t) ∧ DepsFirst deps t

/-- the graph restricted to `keys` is acyclic, stated constructively: there is a rank that
    strictly decreases along every import edge -/
def HasRank (keys : List String) (deps : String → List String) : Prop :=
  ∃ rank : String → Nat, ∀ k ∈ keys, ∀ d ∈ deps k, rank d < rank k

/-- every imported package is itself one of the discovered packages -/
def Closed (keys : List String) (deps : String → List String) : Prop :=
  ∀ k ∈ keys, ∀ d ∈ deps k, d ∈ keys

theorem pick_some {keys : List String} {deps : String → List String} {p : String}
    (h : pick keys deps = some p) : p ∈ keys ∧ deps p = [] := by
  unfold pick at h
  exact ⟨List.mem_of_find?_eq_some h, by simpa using List.find?_some h⟩

/-- **deterministic tie-break**: the package taken is the first eligible one in the (sorted) list -/
theorem pick_first {keys : List String} {deps : String → List String} {p : String}
    (h : pick keys deps = some p) :
    ∃ l1 l2, keys = l1 ++ p :: l2 ∧ ∀ k ∈ l1, deps k ≠ [] := by
  unfold pick at h
  obtain ⟨_, l1, l2, e, hn⟩ := List.find?_eq_some_iff_append.mp h
  exact ⟨l1, l2, e, fun k hk => by simpa using hn k hk⟩

theorem mem_dropDep {deps : String → List String} {p k d : String} :
    d ∈ dropDep deps p k ↔ d ∈ deps k ∧ d ≠ p := by
  simp [dropDep, List.mem_filter]

private theorem depsFirst_of_filter (deps : String → List String) (p : String) :
    ∀ t : List String, p ∉ t → DepsFirst (dropDep deps p) t → DepsFirst deps t := by
  intro t
  induction t with
  | nil => intros; trivial
  | cons q t ih =>
    intro hp hd
    refine ⟨?_, ih (fun h => hp (List.mem_cons_of_mem _ h)) hd.2⟩
    intro b hb
    by_cases hbp : b = p
    · subst hbp; exact hp
    · exact hd.1 b (mem_dropDep.mpr ⟨hb, hbp⟩)

/-- **each package once, dependencies first**: when the loop succeeds its result lists every
    discovered package exactly once and no package comes before something it imports -/
theorem order_sound : ∀ (n : Nat) (keys : List String) (deps : String → List String) (l : List String),
    keys.Nodup → order n keys deps = .ok l → l.Perm keys ∧ l.Nodup ∧ DepsFirst deps l := by
  intro n
  induction n with
  | zero =>
    intro keys deps l _ h
    cases keys with
    | nil => simp [order] at h; subst h; exact ⟨List.Perm.refl _, List.nodup_nil, trivial⟩
    | cons a t => simp [order] at h
  | succ n ih =>
    intro keys deps l hnd h
    cases keys with
    | nil => simp [order] at h; subst h; exact ⟨List.Perm.refl _, List.nodup_nil, trivial⟩
    | cons a t =>
      rw [order] at h
      cases hp : pick (a :: t) deps with
      | none => simp [hp] at h
      | some p =>
        simp only [hp] at h
        cases ho : order n ((a :: t).erase p) (dropDep deps p) with
        | error e => simp [ho] at h
        | ok l' =>
          simp only [ho] at h
          cases h
          obtain ⟨hmem, hnil⟩ := pick_some hp
          obtain ⟨hperm, hnd', hdf⟩ := ih _ _ l' (hnd.erase p) ho
          have hpl : p ∉ l' := fun hm =>
            ((List.Nodup.mem_erase_iff hnd).mp (hperm.mem_iff.mp hm)).1 rfl
          refine ⟨?_, List.nodup_cons.mpr ⟨hpl, hnd'⟩, ⟨by simp [hnil], depsFirst_of_filter deps p l' hpl hdf⟩⟩
          exact (List.Perm.cons p hperm).trans (List.perm_cons_erase hmem).symm

private theorem exists_min_rank (rank : String → Nat) :
    ∀ keys : List String, keys ≠ [] → ∃ k ∈ keys, ∀ k' ∈ keys, rank k ≤ rank k' := by
  intro keys
  induction keys with
  | nil => intro h; exact absurd rfl h
  | cons a t ih =>
    intro _
    by_cases ht : t = []
    · subst ht; exact ⟨a, by simp, by simp⟩
    · obtain ⟨k, hk, hmin⟩ := ih ht
      by_cases hle : rank a ≤ rank k
      · refine ⟨a, by simp, ?_⟩
        intro k' hk'
        rcases List.mem_cons.mp hk' with rfl | hk'
        · exact Nat.le_refl _
        · exact Nat.le_trans hle (hmin k' hk')
      · refine ⟨k, List.mem_cons_of_mem _ hk, ?_⟩
        intro k' hk'
        rcases List.mem_cons.mp hk' with rfl | hk'
        · omega
        · exact hmin k' hk'

/-- **every acyclic graph is ordered**: with enough fuel (the number of packages) the loop
    succeeds whenever the import relation has no cycle -/
theorem order_complete : ∀ (n : Nat) (keys : List String) (deps : String → List String),
    keys.length ≤ n → Closed keys deps → HasRank keys deps → ∃ l, order n keys deps = .ok l := by
  intro n
  induction n with
  | zero =>
    intro keys deps hl _ _
    have : keys = [] := List.length_eq_zero_iff.mp (by omega)
    subst this; exact ⟨[], by simp [order]⟩
  | succ n ih =>
    intro keys deps hl hc hr
    cases keys with
    | nil => exact ⟨[], by simp [order]⟩
    | cons a t =>
      obtain ⟨rank, hrank⟩ := hr
      obtain ⟨k, hk, hmin⟩ := exists_min_rank rank (a :: t) (by simp)
      have hknil : deps k = [] := by
        cases hd : deps k with
        | nil => rfl
        | cons d ds =>
          have hdm : d ∈ deps k := by simp [hd]
          have := hmin d (hc k hk d hdm)
          have := hrank k hk d hdm
          omega
      have hsome : (pick (a :: t) deps).isSome := by
        unfold pick
        rw [List.find?_isSome]
        exact ⟨k, hk, by simp [hknil]⟩
      obtain ⟨p, hp⟩ := Option.isSome_iff_exists.mp hsome
      obtain ⟨hmem, _⟩ := pick_some hp
      have hlen : ((a :: t).erase p).length ≤ n := by
        rw [List.length_erase_of_mem hmem]; simp at hl ⊢; omega
      have hc' : Closed ((a :: t).erase p) (dropDep deps p) := by
        intro k hk d hd
        obtain ⟨hd1, hd2⟩ := mem_dropDep.mp hd
        exact (List.mem_erase_of_ne hd2).mpr (hc k (List.mem_of_mem_erase hk) d hd1)
      have hr' : HasRank ((a :: t).erase p) (dropDep deps p) :=
        ⟨rank, fun k hk d hd => hrank k (List.mem_of_mem_erase hk) d (mem_dropDep.mp hd).1⟩
      obtain ⟨l, hl'⟩ := ih _ _ hlen hc' hr'
      exact ⟨p :: l, by rw [order]; simp [hp, hl']⟩

/-- fuel equal to the number of packages is always enough: the loop never stops for lack of it -/
theorem order_never_out_of_fuel : ∀ (n : Nat) (keys : List String) (deps : String → List String),
    keys.length ≤ n → order n keys deps ≠ .error .fuel := by
  intro n
  induction n with
  | zero =>
    intro keys deps hl
    have : keys = [] := List.length_eq_zero_iff.mp (by omega)
    subst this; simp [order]
  | succ n ih =>
    intro keys deps hl
    cases keys with
    | nil => simp [order]
    | cons a t =>
      rw [order]
      cases hp : pick (a :: t) deps with
      | none => simp
      | some p =>
        obtain ⟨hmem, _⟩ := pick_some hp
        have hlen : ((a :: t).erase p).length ≤ n := by
          rw [List.length_erase_of_mem hmem]; simp at hl ⊢; omega
        have := ih ((a :: t).erase p) (dropDep deps p) hlen
        dsimp only
        cases ho : order n ((a :: t).erase p) (dropDep deps p) with
        | ok l => simp
        | error e =>
          intro he
          injection he with he
          subst he
          exact this ho

private theorem idx_lt (deps : String → List String) :
    ∀ l : List String, l.Nodup → DepsFirst deps l →
      ∀ k ∈ l, ∀ d ∈ deps k, d ∈ l → l.idxOf d < l.idxOf k := by
  intro l
  induction l with
  | nil => intro _ _ k hk; cases hk
  | cons p t ih =>
    intro hnd hdf k hk d hd hdl
    have hpt : p ∉ t := (List.nodup_cons.mp hnd).1
    rcases List.mem_cons.mp hk with rfl | hk
    · exact absurd hdl (hdf.1 d hd)
    · have hkp : k ≠ p := fun e => hpt (e ▸ hk)
      have e1 : (p == k) = false := by simpa using hkp.symm
      rcases List.mem_cons.mp hdl with rfl | hdl
      · simp [List.idxOf_cons, e1]
      · have hdp : d ≠ p := fun e => hpt (e ▸ hdl)
        have e2 : (p == d) = false := by simpa using hdp.symm
        have := ih (List.nodup_cons.mp hnd).2 hdf.2 k hk d hd hdl
        simp only [List.idxOf_cons, e1, e2, cond_false]
        omega

/-- **error ⇔ no valid initialisation order exists**: on a closed graph the loop succeeds exactly
    when the import relation is acyclic; otherwise it reports an import cycle (never anything else) -/
theorem order_ok_iff_acyclic (keys : List String) (deps : String → List String)
    (hnd : keys.Nodup) (hc : Closed keys deps) :
    (∃ l, order keys.length keys deps = .ok l) ↔ HasRank keys deps := by
  constructor
  · rintro ⟨l, hl⟩
    obtain ⟨hperm, hndl, hdf⟩ := order_sound _ _ _ l hnd hl
    refine ⟨fun k => l.idxOf k, ?_⟩
    intro k hk d hd
    exact idx_lt deps l hndl hdf k (hperm.mem_iff.mpr hk) d hd (hperm.mem_iff.mpr (hc k hk d hd))
  · exact order_complete _ _ _ (Nat.le_refl _) hc

theorem cycle_is_error (keys : List String) (deps : String → List String)
    (hnd : keys.Nodup) (hc : Closed keys deps) (h : ¬ HasRank keys deps) :
    order keys.length keys deps = .error .cycle := by
  cases ho : order keys.length keys deps with
  | ok l => exact absurd ((order_ok_iff_acyclic keys deps hnd hc).mp ⟨l, ho⟩) h
  | error e =>
    cases e with
    | cycle => rfl
    | fuel => exact absurd ho (order_never_out_of_fuel _ _ _ (Nat.le_refl _))

/-- a chain of imports inside the discovered packages -/
inductive Path (keys : List String) (deps : String → List String) : String → String → Prop
  | edge {a b} : a ∈ keys → b ∈ deps a → Path keys deps a b
  | trans {a b c} : Path keys deps a b → b ∈ keys → Path keys deps b c → Path keys deps a c

/-- an import cycle (a package reaching itself, a self-import included) rules out every rank, so
    by `cycle_is_error` the loader reports it -/
theorem cycle_no_rank (keys : List String) (deps : String → List String) (a : String)
    (h : Path keys deps a a) : ¬ HasRank keys deps := by
  rintro ⟨rank, hr⟩
  have : ∀ x y, Path keys deps x y → rank y < rank x := by
    intro x y hp
    induction hp with
    | edge ha hb => exact hr _ ha _ hb
    | trans _ _ _ ih1 ih2 => omega
  exact absurd (this a a h) (Nat.lt_irrefl _)

/-! ### non-vacuity: a diamond with a shared leaf, and a two-package cycle -/

def diamond : Imports := [("app", ["left", "right", "fmt"]), ("left", ["base"]), ("right", ["base"]), ("base", [])]
def cyc : Imports := [("a", ["b"]), ("b", ["a"])]

example : loadOrder diamond "app" = .ok ["base", "fmt", "left", "right", "app"] := by rfl
example : loadOrder cyc "a" = .error .cycle := by rfl
example : loadOrder [("a", ["a"])] "a" = .error .cycle := by rfl
example : HasRank ["app", "base", "fmt", "left", "right"] (importsOf diamond) :=
  ⟨fun k => if k = "app" then 2 else if k = "left" ∨ k = "right" then 1 else 0, by decide⟩

end Goat.Props.C15

/-! ## Discovery, and discovery composed with ordering -/

namespace Goat.Props.C15
open Goat.Load

/-- reachable from `top` along import edges -/
inductive Reach (g : Imports) (top : String) : String → Prop where
  | base : Reach g top top
  | step {p q} : Reach g top p → q ∈ importsOf g p → Reach g top q

/-- import entries of the packages not yet seen: what can still be pushed on the worklist -/
def pending (g : Imports) (seen : List String) : Nat :=
  ((g.filter fun e => !seen.contains e.1).map fun e => e.2.length).sum

def NodupKeys (g : Imports) : Prop := (g.map Prod.fst).Nodup

theorem importsOf_notKey (g : Imports) (p : String) (h : p ∉ g.map Prod.fst) : importsOf g p = [] := by
  unfold importsOf
  have : g.lookup p = none := by
    induction g with
    | nil => rfl
    | cons e t ih =>
      simp only [List.map_cons, List.mem_cons, not_or] at h
      obtain ⟨k, v⟩ := e
      simp only [List.lookup_cons]
      have : (p == k) = false := by simpa using h.1
      simp [this, ih h.2]
  simp [this]

theorem pending_cons (g : Imports) (hn : NodupKeys g) (seen : List String) (p : String) (hp : p ∉ seen) :
    pending g (p :: seen) + (importsOf g p).length = pending g seen := by
  induction g with
  | nil => simp [pending, importsOf]
  | cons e t ih =>
    obtain ⟨k, v⟩ := e
    simp only [NodupKeys, List.map_cons, List.nodup_cons] at hn
    have iht := ih hn.2
    by_cases hk : p = k
    · subst hk
      have hnot : p ∉ t.map Prod.fst := hn.1
      have e0 : importsOf ((p, v) :: t) p = v := by simp [importsOf, List.lookup_cons]
      have e1 : importsOf t p = [] := importsOf_notKey t p hnot
      rw [e1] at iht
      simp only [List.length_nil, Nat.add_zero] at iht
      have hs : seen.contains p = false := by simpa using hp
      simp only [pending, List.filter_cons, List.contains_cons, BEq.rfl, Bool.true_or, Bool.not_true, Bool.false_eq_true,
        if_false, hs, Bool.not_false, if_true, List.map_cons, List.sum_cons, e0]
      simp only [pending, List.contains_cons] at iht
      omega
    · have e0 : importsOf ((k, v) :: t) p = importsOf t p := by
        have : (p == k) = false := by simpa using hk
        simp [importsOf, List.lookup_cons, this]
      rw [e0]
      have hkp : (k == p) = false := by
        have : ¬ k = p := fun h => hk h.symm
        simpa using this
      simp only [pending, List.filter_cons, List.contains_cons, hkp, Bool.false_or]
      simp only [pending, List.contains_cons] at iht
      split
      · simp only [List.map_cons, List.sum_cons]; omega
      · exact iht

structure Inv (g : Imports) (top : String) (todo seen : List String) : Prop where
  closedUpTo : ∀ p ∈ seen, ∀ q ∈ importsOf g p, q ∈ seen ∨ q ∈ todo
  reach : ∀ x, x ∈ todo ∨ x ∈ seen → Reach g top x
  nodup : seen.Nodup
  top : top ∈ todo ∨ top ∈ seen

structure Res (g : Imports) (top : String) (R : List String) : Prop where
  closed : ∀ p ∈ R, ∀ q ∈ importsOf g p, q ∈ R
  reach : ∀ x ∈ R, Reach g top x
  nodup : R.Nodup
  top : top ∈ R

theorem discover_res (g : Imports) (hn : NodupKeys g) (top : String) :
    ∀ (fuel : Nat) (todo seen : List String), todo.length + pending g seen ≤ fuel → Inv g top todo seen →
      Res g top (discover g fuel todo seen) := by
  intro fuel
  induction fuel with
  | zero =>
    intro todo seen hf hi
    have ht : todo = [] := by
      cases todo with
      | nil => rfl
      | cons a t => simp at hf
    subst ht
    simp only [discover]
    exact ⟨fun p hp q hq => (hi.closedUpTo p hp q hq).elim id (fun h => by simp at h),
      fun x hx => hi.reach x (Or.inr hx), hi.nodup, hi.top.elim (fun h => by simp at h) id⟩
  | succ f ih =>
    intro todo seen hf hi
    cases todo with
    | nil =>
      simp only [discover]
      exact ⟨fun p hp q hq => (hi.closedUpTo p hp q hq).elim id (fun h => by simp at h),
        fun x hx => hi.reach x (Or.inr hx), hi.nodup, hi.top.elim (fun h => by simp at h) id⟩
    | cons p todo =>
      simp only [discover]
      by_cases hs : seen.contains p = true
      · simp only [hs, if_true]
        have hps : p ∈ seen := by simpa using hs
        apply ih todo seen (by simp only [List.length_cons] at hf; omega)
        exact ⟨fun a ha q hq => (hi.closedUpTo a ha q hq).elim Or.inl (fun h => by
                  simp only [List.mem_cons] at h
                  rcases h with rfl | h
                  · exact Or.inl hps
                  · exact Or.inr h),
               fun x hx => hi.reach x (hx.elim (fun h => Or.inl (by simp [h])) Or.inr),
               hi.nodup,
               hi.top.elim (fun h => by
                  simp only [List.mem_cons] at h
                  rcases h with rfl | h
                  · exact Or.inr hps
                  · exact Or.inl h) Or.inr⟩
      · have hs' : seen.contains p = false := by simpa using hs
        simp only [hs', Bool.false_eq_true, if_false]
        have hps : p ∉ seen := by simpa using hs'
        have hpend := pending_cons g hn seen p hps
        apply ih (importsOf g p ++ todo) (p :: seen)
          (by simp only [List.length_append, List.length_cons] at hf ⊢; omega)
        have hpr : Reach g top p := hi.reach p (Or.inl (by simp))
        refine ⟨?_, ?_, List.nodup_cons.mpr ⟨hps, hi.nodup⟩, ?_⟩
        · intro a ha q hq
          simp only [List.mem_cons] at ha
          rcases ha with rfl | ha
          · exact Or.inr (by simp [hq])
          · rcases hi.closedUpTo a ha q hq with h | h
            · exact Or.inl (by simp [h])
            · simp only [List.mem_cons] at h
              rcases h with rfl | h
              · exact Or.inl (by simp)
              · exact Or.inr (by simp [h])
        · intro x hx
          rcases hx with hx | hx
          · simp only [List.mem_append] at hx
            rcases hx with hx | hx
            · exact Reach.step hpr hx
            · exact hi.reach x (Or.inl (by simp [hx]))
          · simp only [List.mem_cons] at hx
            rcases hx with rfl | hx
            · exact hpr
            · exact hi.reach x (Or.inr hx)
        · rcases hi.top with h | h
          · simp only [List.mem_cons] at h
            rcases h with rfl | h
            · exact Or.inr (by simp)
            · exact Or.inl (by simp [h])
          · exact Or.inr (by simp [h])

theorem res_complete {g : Imports} {top : String} {R : List String} (h : Res g top R) :
    ∀ x, Reach g top x → x ∈ R := by
  intro x hx
  induction hx with
  | base => exact h.top
  | step _ hq ih => exact h.closed _ ih _ hq

end Goat.Props.C15

namespace Goat.Props.C15
open Goat.Load

theorem foldl_len (g : Imports) (a : Nat) :
    g.foldl (fun n p => n + p.2.length) a = a + (g.map fun e => e.2.length).sum := by
  induction g generalizing a with
  | nil => simp
  | cons e t ih => simp only [List.foldl_cons, ih, List.map_cons, List.sum_cons]; omega

theorem pending_nil (g : Imports) : pending g [] = (g.map fun e => e.2.length).sum := by
  have : g.filter (fun _ => true) = g := List.filter_eq_self.mpr (fun _ _ => rfl)
  simp [pending, this]

theorem insertSorted_perm (s : String) (l : List String) : (insertSorted s l).Perm (s :: l) := by
  induction l with
  | nil => exact List.Perm.refl _
  | cons a t ih =>
    simp only [insertSorted]
    split
    · exact List.Perm.refl _
    · exact (List.Perm.cons a ih).trans (List.Perm.swap s a t)

theorem sortStrings_perm (l : List String) : (sortStrings l).Perm l := by
  induction l with
  | nil => exact List.Perm.refl _
  | cons a t ih =>
    simp only [sortStrings, List.foldr_cons]
    exact (insertSorted_perm a _).trans (List.Perm.cons a ih)

/-- **discover_spec.** The worklist ends with exactly the packages reachable from the top package
    along import edges (missing packages included, as leaves), each once. -/
theorem discover_spec (g : Imports) (hn : NodupKeys g) (top : String) :
    (∀ x, x ∈ discovered g top ↔ Reach g top x) ∧ (discovered g top).Nodup ∧
    (∀ p ∈ discovered g top, ∀ q ∈ importsOf g p, q ∈ discovered g top) := by
  have hres : Res g top (discovered g top) := by
    apply discover_res g hn top
    · rw [pending_nil, foldl_len]
      simp only [List.length_cons, List.length_nil, Nat.zero_add]
      cases g with
      | nil => simp
      | cons e t =>
        simp only [List.length_cons]
        generalize ((e :: t).map fun e => e.2.length).sum = E
        have : (t.length + 1) * (E + 1) = t.length * (E + 1) + (E + 1) := by
          rw [Nat.add_mul, Nat.one_mul]
        omega
    · exact ⟨fun p hp => by simp at hp, fun x hx => by
              rcases hx with hx | hx
              · simp only [List.mem_singleton] at hx; subst hx; exact Reach.base
              · simp at hx,
            List.nodup_nil, Or.inl (by simp)⟩
  exact ⟨fun x => ⟨hres.reach x, res_complete hres x⟩, hres.nodup, hres.closed⟩

/-- **load_spec (discovery ∘ ordering).** When `loadImports` succeeds, the run order consists of
    exactly the packages reachable from the top package, each exactly once, and every package comes
    after everything it imports. -/
theorem load_spec (g : Imports) (hn : NodupKeys g) (top : String) (l : List String)
    (h : loadOrder g top = .ok l) :
    (∀ x, x ∈ l ↔ Reach g top x) ∧ l.Nodup ∧ DepsFirst (importsOf g) l := by
  obtain ⟨hmem, hnd, _⟩ := discover_spec g hn top
  have hp := sortStrings_perm (discovered g top)
  have hk : (sortStrings (discovered g top)).Nodup := hp.nodup_iff.mpr hnd
  obtain ⟨hperm, hndl, hdf⟩ := order_sound _ _ _ l hk h
  refine ⟨fun x => ?_, hndl, hdf⟩
  rw [← hmem x]
  exact (hperm.mem_iff).trans hp.mem_iff

/-- **load_ok_iff.** `loadImports` succeeds exactly when the import relation restricted to the
    reachable packages is acyclic; otherwise it reports an import cycle. -/
theorem load_ok_iff (g : Imports) (hn : NodupKeys g) (top : String) :
    (∃ l, loadOrder g top = .ok l) ↔ HasRank (sortStrings (discovered g top)) (importsOf g) := by
  obtain ⟨_, hnd, hcl⟩ := discover_spec g hn top
  have hp := sortStrings_perm (discovered g top)
  have hk : (sortStrings (discovered g top)).Nodup := hp.nodup_iff.mpr hnd
  have hc : Closed (sortStrings (discovered g top)) (importsOf g) :=
    fun k hk' d hd => hp.mem_iff.mpr (hcl k (hp.mem_iff.mp hk') d hd)
  exact order_ok_iff_acyclic _ _ hk hc

example : NodupKeys diamond := by unfold NodupKeys; decide

end Goat.Props.C15

#print axioms Goat.Props.C15.pick_first
#print axioms Goat.Props.C15.order_sound
#print axioms Goat.Props.C15.order_complete
#print axioms Goat.Props.C15.order_never_out_of_fuel
#print axioms Goat.Props.C15.order_ok_iff_acyclic
#print axioms Goat.Props.C15.cycle_is_error
#print axioms Goat.Props.C15.cycle_no_rank
#print axioms Goat.Props.C15.discover_spec
#print axioms Goat.Props.C15.load_spec
#print axioms Goat.Props.C15.load_ok_iff
