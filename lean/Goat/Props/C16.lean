import Goat.Model.TreeSort
import Goat.Lemmas.Resolve
/-!
# C16 — declaration order and file layout inside a package do not matter

What is proved here is the sorting half of the mechanism, in closed form: `treeSort l` is the
concatenation, in descending priority order, of the sub-lists of `l` of each priority, each in
source order (`sort_closed_form`). Hence hoistable declarations (types, consts, methods,
functions) precede everything else, `init` comes last, and items of one class — in particular
variable initialisers and statements — keep their relative source order; and two lists that
differ only by a permutation of their hoistable declarations are sorted to lists that differ
only inside the type / method / function blocks (`sort_respects_permutation`).

That two declarations *within* such a block commute at run time (distinct global slots,
interned indexes renamed) is not proved in Lean; it is checked by search (all permutations /
random partitions of generated packages must print the same) — `order_irrelevant_partial`.
-/
namespace Goat.Props.C16
open Goat.TreeSort

variable {α : Type}

/-- the sub-lists of each level, highest level first -/
def blocks (pr : α → Int) (ps : List Int) (l : List α) : List α :=
  ps.flatMap (fun p => l.filter (fun x => pr x = p))

theorem ins_skip (pr : α → Int) (x : α) (A B : List α) (h : ∀ y ∈ A, pr y > pr x) :
    ins pr x (A ++ B) = A ++ ins pr x B := by
  induction A with
  | nil => rfl
  | cons y t ih =>
    have hy : ¬ pr x ≥ pr y := by have := h y (List.mem_cons_self ..); omega
    simp only [List.cons_append, ins, hy, if_false]
    rw [ih (fun z hz => h z (List.mem_cons_of_mem _ hz))]

theorem ins_front (pr : α → Int) (x : α) (B : List α) (h : ∀ y ∈ B, pr y ≤ pr x) :
    ins pr x B = x :: B := by
  cases B with
  | nil => rfl
  | cons y t =>
    have : pr x ≥ pr y := h y (List.mem_cons_self ..)
    simp [ins, this]

private theorem blocks_cons_notin (pr : α → Int) (ps : List Int) (x : α) (l : List α)
    (h : pr x ∉ ps) : blocks pr ps (x :: l) = blocks pr ps l := by
  induction ps with
  | nil => rfl
  | cons p ps ih =>
    have hp : pr x ≠ p := fun e => h (e ▸ List.mem_cons_self ..)
    have hps : pr x ∉ ps := fun e => h (List.mem_cons_of_mem _ e)
    simp only [blocks, List.flatMap_cons] at ih ⊢
    rw [ih hps]
    simp [List.filter_cons, hp]

private theorem blocks_le (pr : α → Int) (ps : List Int) (l : List α) (b : Int)
    (h : ∀ p ∈ ps, p ≤ b) : ∀ y ∈ blocks pr ps l, pr y ≤ b := by
  intro y hy
  simp only [blocks, List.mem_flatMap, List.mem_filter, decide_eq_true_eq] at hy
  obtain ⟨p, hp, _, e⟩ := hy
  rw [e]; exact h p hp

/-- inserting into the closed form gives the closed form -/
theorem ins_blocks (pr : α → Int) (ps : List Int) (hdesc : ps.Pairwise (· > ·)) (x : α) (l : List α)
    (hx : pr x ∈ ps) : ins pr x (blocks pr ps l) = blocks pr ps (x :: l) := by
  induction ps with
  | nil => cases hx
  | cons p ps ih =>
    have hd := List.pairwise_cons.mp hdesc
    have e1 : blocks pr (p :: ps) l = l.filter (fun y => pr y = p) ++ blocks pr ps l := by
      simp [blocks, List.flatMap_cons]
    have e2 : blocks pr (p :: ps) (x :: l) =
        (x :: l).filter (fun y => pr y = p) ++ blocks pr ps (x :: l) := by
      simp [blocks, List.flatMap_cons]
    rw [e1, e2]
    by_cases hxp : pr x = p
    · -- x belongs to the first block: it goes in front of everything
      have hnot : pr x ∉ ps := fun hm => by have := hd.1 _ hm; omega
      rw [blocks_cons_notin pr ps x l hnot]
      have : (x :: l).filter (fun y => pr y = p) = x :: l.filter (fun y => pr y = p) := by
        simp [List.filter_cons, hxp]
      rw [this, List.cons_append]
      apply ins_front
      intro y hy
      rcases List.mem_append.mp hy with hy | hy
      · simp only [List.mem_filter, decide_eq_true_eq] at hy; omega
      · have := blocks_le pr ps l p (fun q hq => by have := hd.1 q hq; omega) y hy; omega
    · have hxps : pr x ∈ ps := by
        rcases List.mem_cons.mp hx with h | h
        · exact absurd h hxp
        · exact h
      have hlt : pr x < p := by have := hd.1 _ hxps; omega
      have : (x :: l).filter (fun y => pr y = p) = l.filter (fun y => pr y = p) := by
        simp [List.filter_cons, hxp]
      rw [this, ins_skip pr x _ _ (by
        intro y hy; simp only [List.mem_filter, decide_eq_true_eq] at hy; omega)]
      rw [ih hd.2 hxps]

/-- **closed form of the sort**, for any priority function and any list of levels that is strictly
    descending and contains every priority that occurs -/
theorem sortDesc_blocks (pr : α → Int) (ps : List Int) (hdesc : ps.Pairwise (· > ·)) :
    ∀ l : List α, (∀ x ∈ l, pr x ∈ ps) → sortDesc pr l = blocks pr ps l := by
  intro l
  induction l with
  | nil => intro _; simp [sortDesc, blocks]
  | cons x l ih =>
    intro h
    rw [sortDesc, ih (fun y hy => h y (List.mem_cons_of_mem _ hy))]
    exact ins_blocks pr ps hdesc x l (h x (List.mem_cons_self ..))

/-! ### facts about the regenerated priority table (kernel evaluation) -/

theorem levels_desc : levels.Pairwise (· > ·) := by decide

theorem levels_value : levels = [100, 90, 80, 70, 60, 50, 0, -10] := by decide

/-- every kind's priority is one of the levels (kinds outside the table have priority 0) -/
theorem prio_mem_levels (k : String) : prio k ∈ levels := by
  unfold prio
  cases h : Gen.treePriority.lookup k with
  | none => simp [levels_value]
  | some v =>
    have hm : (k, v) ∈ Gen.treePriority := by
      have : ∀ (l : List (String × Int)), l.lookup k = some v → (k, v) ∈ l := by
        intro l
        induction l with
        | nil => intro h; simp at h
        | cons p t ih =>
          obtain ⟨a, b⟩ := p
          intro h
          rw [List.lookup_cons] at h
          split at h
          · rename_i heq; simp at heq h; simp [heq, h]
          · exact List.mem_cons_of_mem _ (ih h)
      exact this _ h
    have : ∀ p ∈ Gen.treePriority, p.2 ∈ levels := by decide
    simpa using this _ hm

/-- hoisting order of the kinds: import, type, const, method, function before everything else;
    init after everything else -/
theorem table_hoists :
    prio "import" > prio "type" ∧ prio "type" > prio "const" ∧ prio "const" > prio "method" ∧
    prio "method" > prio "function" ∧ prio "function" > 0 ∧ prio "init" < 0 ∧
    prio "var" = 0 ∧ prio ":=" = 0 ∧ prio "call" = 0 ∧ prio "=" = 0 ∧ prio "for" = 0 ∧ prio "if" = 0 := by decide

/-! ### the property (sorting half) -/

/-- **sort_closed_form.** `treeSort` returns the nodes of priority 100, then 90, …, then 0, then
    −10, each group in source order: hoistable declarations first, `init` last, everything else
    (variable initialisers, statements) in between in its source order. -/
theorem sort_closed_form (l : List (String × α)) :
    treeSort l = blocks (fun n => prio n.1) levels l :=
  sortDesc_blocks _ levels levels_desc l (fun x _ => prio_mem_levels x.1)

theorem filter_blocks (pr : α → Int) (l : List α) (p : Int) :
    ∀ ps : List Int, ps.Nodup →
      (blocks pr ps l).filter (fun x => pr x = p) = if p ∈ ps then l.filter (fun x => pr x = p) else [] := by
  intro ps
  induction ps with
  | nil => intro _; simp [blocks]
  | cons q ps ih =>
    intro hnd
    have hq := List.nodup_cons.mp hnd
    have e1 : blocks pr (q :: ps) l = l.filter (fun y => pr y = q) ++ blocks pr ps l := by
      simp [blocks, List.flatMap_cons]
    rw [e1, List.filter_append, ih hq.2, List.filter_filter]
    by_cases hqp : q = p
    · subst hqp
      have : (fun a => decide (pr a = q) && decide (pr a = q)) = fun a => decide (pr a = q) := by
        funext a; simp
      simp [hq.1, this]
    · have hpq : p ≠ q := fun e => hqp e.symm
      have hempty : l.filter (fun a => decide (pr a = p) && decide (pr a = q)) = [] := by
        apply List.filter_eq_nil_iff.mpr
        intro a _
        simp only [Bool.and_eq_true, decide_eq_true_eq]
        rintro ⟨h1, h2⟩
        exact hpq (h1.symm.trans h2)
      rw [hempty]
      by_cases hm : p ∈ ps
      · simp [hm]
      · simp [hm, hpq]

/-- sorting does not change the order inside a class: the nodes of each priority appear in the
    output in their source order -/
theorem sort_keeps_class_order (l : List (String × α)) (p : Int) :
    (treeSort l).filter (fun n => prio n.1 = p) = l.filter (fun n => prio n.1 = p) := by
  rw [sort_closed_form]
  have hnd : levels.Nodup := by decide
  rw [filter_blocks _ l p levels hnd]
  by_cases hm : p ∈ levels
  · simp [hm]
  · simp only [hm, if_false]
    symm
    apply List.filter_eq_nil_iff.mpr
    intro a _
    simp only [decide_eq_true_eq]
    intro e
    exact hm (e ▸ prio_mem_levels a.1)

/-- **sort_respects_permutation.** Two top-level lists with the same nodes in each non-hoistable
    class in the same order, and the same hoistable declarations in any order, are sorted to lists
    that agree block by block: equal on every class whose source order was equal, permutations of
    each other on the rest. -/
theorem sort_respects_permutation (l1 l2 : List (String × α)) (p : Int)
    (h : (l1.filter (fun n => prio n.1 = p)).Perm (l2.filter (fun n => prio n.1 = p))) :
    ((treeSort l1).filter (fun n => prio n.1 = p)).Perm ((treeSort l2).filter (fun n => prio n.1 = p)) ∧
    (l1.filter (fun n => prio n.1 = p) = l2.filter (fun n => prio n.1 = p) →
      (treeSort l1).filter (fun n => prio n.1 = p) = (treeSort l2).filter (fun n => prio n.1 = p)) := by
  rw [sort_keeps_class_order, sort_keeps_class_order]
  exact ⟨h, id⟩

/-- the output is the concatenation of its classes, so it is determined by them -/
theorem sort_determined_by_classes (l1 l2 : List (String × α))
    (h : ∀ p ∈ levels, l1.filter (fun n => prio n.1 = p) = l2.filter (fun n => prio n.1 = p)) :
    treeSort l1 = treeSort l2 := by
  rw [sort_closed_form, sort_closed_form]
  unfold blocks
  have : ∀ ps : List Int, (∀ p ∈ ps, p ∈ levels) →
      ps.flatMap (fun p => l1.filter (fun x => prio x.1 = p)) =
      ps.flatMap (fun p => l2.filter (fun x => prio x.1 = p)) := by
    intro ps
    induction ps with
    | nil => intro _; rfl
    | cons q ps ih =>
      intro hq
      simp only [List.flatMap_cons]
      rw [h q (hq q (List.mem_cons_self ..)), ih (fun p hp => hq p (List.mem_cons_of_mem _ hp))]
  exact this levels (fun _ h => h)

/-! ### the other half: what a reference means does not depend on the compile order

Hoisting decides in which order bodies are compiled; the table of globals that a body is compiled
against therefore differs between layouts (which package-level keys already exist, which types other
functions declared). The resolution of an identifier reads only three things from that table. -/

open Goat.Resolve

/-- **resolve_layout_independent.** Two tables - the table of globals as two different compile orders of the
    package's declarations leave it when the body of a function is reached - that agree on the function's own
    types and on the builtins give the same resolution of an identifier, provided they agree on the package-level
    key of every identifier that is ALSO a builtin. (For every other identifier the order cannot matter: a
    package-level name that is not there yet is a forward reference to the same key.) -/
theorem resolve_layout_independent (t1 t2 : Tab) (c : Ctx) (x : String)
    (hl : Key.ltype c.fn x ∈ t1.keys ↔ Key.ltype c.fn x ∈ t2.keys)
    (hb : Key.builtin x ∈ t1.keys ↔ Key.builtin x ∈ t2.keys)
    (hg : Key.builtin x ∈ t1.keys → (Key.glob x ∈ t1.keys ↔ Key.glob x ∈ t2.keys)) :
    resolve t1 c x = resolve t2 c x := by
  by_cases hd : x = "$" <;> by_cases hs : (c.inScope = true ∧ Key.ltype c.fn x ∈ t2.keys) <;> by_cases hx : x ∈ c.locals <;>
    by_cases hbx : Key.builtin x ∈ t1.keys
  all_goals first
    | (have hg' := hg hbx
       simp [resolve, resolveWith, Gen.resolveOrder, firstSome, tryStep, hl, ← hb, hg', hd, hs, hx, hbx])
    | (have hbx2 : Key.builtin x ∉ t2.keys := fun h => hbx (hb.mpr h)
       by_cases h1 : Key.glob x ∈ t1.keys <;> by_cases h2 : Key.glob x ∈ t2.keys <;>
         simp [resolve, resolveWith, Gen.resolveOrder, firstSome, tryStep, hl, hbx, hbx2, h1, h2, hd, hs, hx])

/-- in particular: no package-level name of the package is spelled like a builtin -/
theorem resolve_layout_independent_of_no_clash (t1 t2 : Tab) (c : Ctx) (x : String)
    (hl : Key.ltype c.fn x ∈ t1.keys ↔ Key.ltype c.fn x ∈ t2.keys)
    (hb : Key.builtin x ∈ t1.keys ↔ Key.builtin x ∈ t2.keys)
    (n1 : Key.builtin x ∈ t1.keys → Key.glob x ∉ t1.keys) (n2 : Key.builtin x ∈ t2.keys → Key.glob x ∉ t2.keys) :
    resolve t1 c x = resolve t2 c x :=
  resolve_layout_independent t1 t2 c x hl hb (fun h => ⟨fun g => absurd g (n1 h), fun g => absurd g (n2 (hb.mp h))⟩)

/-- on bare tables the excluded case is real: a package-level name spelled like a builtin is found when its key is
    there before the reference and the builtin is taken when it is not (the former finding C16 builtin-named-function;
    it remains the behaviour of successive Eval chunks, where it is the order of the statements - C18) -/
theorem builtin_clash_order_dependent :
    resolve { keys := [.builtin "println", .glob "println"], compiled := [] } { fn := "main.use", inScope := true, locals := [] } "println"
      ≠ resolve { keys := [.builtin "println"], compiled := [] } { fn := "main.use", inScope := true, locals := [] } "println" := by
  decide

/-! For a loaded package the excluded case cannot arise for functions (fix 36683fb): -/

/-- **declared_function_resolves_to_package.** compilePkgs declares the names of a package's functions before it
    compiles the package (`Gen.predeclaresFuncs`, regenerated). Then, in every body of the package - whatever was
    compiled before it: any order of the declarations, any split into files, a first load or a reload - a reference
    to a function of the package that no local and no type of the body hides is the package's function, also when a
    builtin has that name. -/
theorem declared_function_resolves_to_package (t : Tab) (names : List String) (h : List Ev) (c : Ctx) (x : String)
    (hx : x ∈ names) (hd : x ≠ "$") (hl : x ∉ c.locals) (ht : Key.ltype c.fn x ∉ (h.foldl step (predeclare t names)).keys) :
    resolve (h.foldl step (predeclare t names)) c x = .globalGet (.glob x) :=
  package_beats_builtin _ c x hd hl ht (glob_mem_foldl h _ x (glob_mem_predeclare names t x (Or.inl hx)))

/-- **resolve_layout_independent_declared.** In particular two layouts of the package (two histories after the same
    declaration of the function names) resolve such a reference alike -/
theorem resolve_layout_independent_declared (t : Tab) (names : List String) (h1 h2 : List Ev) (c : Ctx) (x : String)
    (hx : x ∈ names) (hd : x ≠ "$") (hl : x ∉ c.locals)
    (t1 : Key.ltype c.fn x ∉ (h1.foldl step (predeclare t names)).keys)
    (t2 : Key.ltype c.fn x ∉ (h2.foldl step (predeclare t names)).keys) :
    resolve (h1.foldl step (predeclare t names)) c x = resolve (h2.foldl step (predeclare t names)) c x := by
  rw [declared_function_resolves_to_package t names h1 c x hx hd hl t1,
    declared_function_resolves_to_package t names h2 c x hx hd hl t2]

theorem predeclare_tie : Gen.predeclaresFuncs = true := by decide

/-- what happens to the table while the bodies of a loaded package are compiled: a body is compiled (its types come
    and go), or an identifier that is found nowhere is entered as a forward reference - which happens only to
    identifiers that are not builtins (the builtin is found first) -/
def BodyEv (base : Tab) : Ev → Prop
  | .compile f _ => f ≠ ""
  | .addKey (.glob x) => Key.builtin x ∉ base.keys
  | .addKey _ => False

theorem builtin_mem_step (t : Tab) (base : Tab) (e : Ev) (he : BodyEv base e) (x : String) :
    Key.builtin x ∈ (step t e).keys ↔ Key.builtin x ∈ t.keys := by
  cases e with
  | compile f tys => exact compile_keeps t f tys (.builtin x) (fun ty => by simp)
  | addKey k =>
    cases k with
    | glob y =>
      simp only [step]
      split
      · rfl
      · simp
    | dollar => exact absurd he (by simp [BodyEv])
    | ltype f ty => exact absurd he (by simp [BodyEv])
    | builtin y => exact absurd he (by simp [BodyEv])

theorem builtin_mem_foldl (base : Tab) (h : List Ev) (hh : ∀ e ∈ h, BodyEv base e) (t : Tab) (x : String) :
    Key.builtin x ∈ (h.foldl step t).keys ↔ Key.builtin x ∈ t.keys := by
  induction h generalizing t with
  | nil => rfl
  | cons e es ih =>
    simp only [List.foldl_cons]
    rw [ih (fun e' he' => hh e' (List.mem_cons_of_mem _ he')) (step t e)]
    exact builtin_mem_step t base e (hh e List.mem_cons_self) x

/-- a package-level key that appears while bodies are compiled belongs to an identifier that is not a builtin -/
theorem glob_new_step (t : Tab) (base : Tab) (e : Ev) (he : BodyEv base e) (x : String)
    (hm : Key.glob x ∈ (step t e).keys) : Key.glob x ∈ t.keys ∨ Key.builtin x ∉ base.keys := by
  cases e with
  | compile f tys => exact Or.inl ((compile_keeps t f tys (.glob x) (fun ty => by simp)).mp hm)
  | addKey k =>
    cases k with
    | glob y =>
      simp only [step] at hm
      split at hm
      · exact Or.inl hm
      · rcases List.mem_cons.mp hm with h | h
        · cases h; exact Or.inr he
        · exact Or.inl h
    | dollar => exact absurd he (by simp [BodyEv])
    | ltype f ty => exact absurd he (by simp [BodyEv])
    | builtin y => exact absurd he (by simp [BodyEv])

theorem glob_new_foldl (base : Tab) (h : List Ev) (hh : ∀ e ∈ h, BodyEv base e) (t : Tab) (x : String)
    (hm : Key.glob x ∈ (h.foldl step t).keys) : Key.glob x ∈ t.keys ∨ Key.builtin x ∉ base.keys := by
  induction h generalizing t with
  | nil => exact Or.inl hm
  | cons e es ih =>
    simp only [List.foldl_cons] at hm
    rcases ih (fun e' he' => hh e' (List.mem_cons_of_mem _ he')) (step t e) hm with h | h
    · exact glob_new_step t base e (hh e List.mem_cons_self) x h
    · exact Or.inr h

/-- **package_layout_independent.** A loaded package: `base` is the table before it (builtins, earlier packages),
    `names` the package-level names that `declareFuncs` enters first; then bodies are compiled in some order, entering
    forward references as they go. For ANY two such histories - two orders of the declarations, two splits into
    files - every identifier in every body resolves alike, provided the two agree on the types the body itself has
    declared so far. No hypothesis about builtins is left: a name of the package hides a builtin in both layouts, and
    a builtin that the package does not declare is the builtin in both. -/
theorem package_layout_independent (base : Tab) (names : List String) (h1 h2 : List Ev)
    (b1 : ∀ e ∈ h1, BodyEv base e) (b2 : ∀ e ∈ h2, BodyEv base e) (c : Ctx) (x : String)
    (hl : Key.ltype c.fn x ∈ (h1.foldl step (predeclare base names)).keys ↔
          Key.ltype c.fn x ∈ (h2.foldl step (predeclare base names)).keys) :
    resolve (h1.foldl step (predeclare base names)) c x = resolve (h2.foldl step (predeclare base names)) c x := by
  -- the builtins are those of `base` in both tables
  have pb : ∀ y, Key.builtin y ∈ (predeclare base names).keys ↔ Key.builtin y ∈ base.keys := by
    intro y
    unfold predeclare
    have : ∀ (ns : List String) (t : Tab), Key.builtin y ∈ (ns.foldl (fun t n => step t (.addKey (.glob n))) t).keys ↔ Key.builtin y ∈ t.keys := by
      intro ns
      induction ns with
      | nil => intro t; rfl
      | cons n ns ih =>
        intro t
        simp only [List.foldl_cons]
        rw [ih]
        simp only [step]
        split
        · rfl
        · simp
    exact this names base
  have hb1 := builtin_mem_foldl base h1 b1 (predeclare base names) x
  have hb2 := builtin_mem_foldl base h2 b2 (predeclare base names) x
  apply resolve_layout_independent _ _ c x hl (by rw [hb1, hb2])
  intro hbx
  have hbase : Key.builtin x ∈ base.keys := (pb x).mp (hb1.mp hbx)
  -- an identifier that is a builtin has its package-level key iff it had it after the declaration of the names
  have key : ∀ (h : List Ev), (∀ e ∈ h, BodyEv base e) →
      (Key.glob x ∈ (h.foldl step (predeclare base names)).keys ↔ Key.glob x ∈ (predeclare base names).keys) := by
    intro h hh
    constructor
    · intro hm
      rcases glob_new_foldl base h hh _ x hm with h' | h'
      · exact h'
      · exact absurd hbase h'
    · exact glob_mem_foldl h _ x
  rw [key h1 b1, key h2 b2]


-- non-vacuity: the builtin is in the table, the function is declared after its caller
example : resolve ([Ev.compile "app.Use" [], .compile "app.println" []].foldl step
      (predeclare { keys := [.builtin "println"], compiled := [] } ["Use", "println", "Main"]))
    { fn := "app.Use", inScope := true, locals := [] } "println" = .globalGet (.glob "println") := by decide
example : resolve ([Ev.compile "app.println" [], .compile "app.Use" []].foldl step
      (predeclare { keys := [.builtin "println"], compiled := [] } ["Use", "println", "Main"]))
    { fn := "app.Use", inScope := true, locals := [] } "println" = .globalGet (.glob "println") := by decide

/-! ### non-vacuity -/

example : treeSort [("var", 1), ("function", 2), ("call", 3), ("init", 4), ("type", 5), ("method", 6), (":=", 7), ("function", 8), ("const", 9), ("import", 10)]
    = [("import", 10), ("type", 5), ("const", 9), ("method", 6), ("function", 2), ("function", 8), ("var", 1), ("call", 3), (":=", 7), ("init", 4)] := by decide

end Goat.Props.C16

#print axioms Goat.Props.C16.sortDesc_blocks
#print axioms Goat.Props.C16.levels_desc
#print axioms Goat.Props.C16.prio_mem_levels
#print axioms Goat.Props.C16.table_hoists
#print axioms Goat.Props.C16.sort_closed_form
#print axioms Goat.Props.C16.sort_keeps_class_order
#print axioms Goat.Props.C16.sort_respects_permutation
#print axioms Goat.Props.C16.sort_determined_by_classes
#print axioms Goat.Props.C16.resolve_layout_independent
#print axioms Goat.Props.C16.resolve_layout_independent_of_no_clash
#print axioms Goat.Props.C16.builtin_clash_order_dependent
#print axioms Goat.Props.C16.declared_function_resolves_to_package
#print axioms Goat.Props.C16.resolve_layout_independent_declared
#print axioms Goat.Props.C16.predeclare_tie
#print axioms Goat.Props.C16.builtin_mem_foldl
#print axioms Goat.Props.C16.glob_new_foldl
#print axioms Goat.Props.C16.package_layout_independent
