import Goat.Model.Reload
import Goat.Lemmas.Resolve
/-!
# C17 — reloading swaps code in place and keeps state
-/
namespace Goat.Props.C17
open Goat.Reload

variable {β V : Type}

theorem lookup_append_some {α : Type} (t u : List (String × α)) (n : String) (a : α)
    (h : lookup t n = some a) : lookup (t ++ u) n = some a := by
  unfold lookup at *
  rw [List.find?_append]
  cases hf : t.find? (·.1 = n) with
  | none => simp [hf] at h
  | some x => simpa [hf] using h

theorem lookup_append_none {α : Type} (t : List (String × α)) (n m : String) (a : α)
    (h : lookup t n = none) : lookup (t ++ [(m, a)]) n = if m = n then some a else none := by
  unfold lookup at *
  rw [List.find?_append]
  cases hf : t.find? (·.1 = n) with
  | some x => simp [hf] at h
  | none =>
    by_cases hm : m = n
    · simp [hm]
    · simp [hm]

/-- **address stability**: a name keeps its cell for ever — captured function values stay valid -/
theorem define_addr_stable (s : St β V) (n m : String) (b : β) (a : Nat)
    (h : lookup s.tab m = some a) : lookup (define s n b).tab m = some a := by
  unfold define
  cases hl : lookup s.tab n with
  | some a' => simpa using h
  | none => exact lookup_append_some _ _ _ _ h

theorem define_wf (s : St β V) (n : String) (b : β) (hw : WF s) : WF (define s n b) := by
  unfold define
  cases hl : lookup s.tab n with
  | some a' =>
    refine ⟨?_, ?_⟩
    · intro m a h; simpa using hw.inRange m a h
    · intro m k a h1 h2; exact hw.inj m k a h1 h2
  | none =>
    refine ⟨?_, ?_⟩
    · intro m a h
      simp only [List.length_append, List.length_cons, List.length_nil]
      cases hm : lookup s.tab m with
      | some a0 =>
        have := lookup_append_some s.tab [(n, s.cells.length)] m a0 hm
        simp only [] at h
        rw [this] at h; cases h
        have := hw.inRange m a hm; omega
      | none =>
        have := lookup_append_none s.tab m n s.cells.length hm
        simp only [] at h
        rw [this] at h
        split at h
        · cases h; omega
        · cases h
    · intro m k a h1 h2
      simp only [] at h1 h2
      cases hm : lookup s.tab m with
      | some a0 =>
        rw [lookup_append_some s.tab _ m a0 hm] at h1; cases h1
        cases hk : lookup s.tab k with
        | some a1 =>
          rw [lookup_append_some s.tab _ k a1 hk] at h2; cases h2
          exact hw.inj m k a hm hk
        | none =>
          rw [lookup_append_none s.tab k n _ hk] at h2
          split at h2
          · cases h2
            have := hw.inRange m _ hm; omega
          · cases h2
      | none =>
        rw [lookup_append_none s.tab m n _ hm] at h1
        split at h1
        · cases h1
          cases hk : lookup s.tab k with
          | some a1 =>
            rw [lookup_append_some s.tab _ k a1 hk] at h2; cases h2
            have := hw.inRange k _ hk; omega
          | none =>
            rw [lookup_append_none s.tab k n _ hk] at h2
            split at h2
            · subst_vars; rfl
            · cases h2
        · cases h1

/-- after `define n b`, calling `n` by name runs `b`, at the old address if there was one -/
theorem define_self (s : St β V) (n : String) (b : β) (hw : WF s) :
    callName (define s n b) n = some b ∧
    ∀ a, lookup s.tab n = some a → callRef (define s n b) a = some b := by
  unfold define callName callRef
  cases hl : lookup s.tab n with
  | some a =>
    have := hw.inRange n a hl
    simp [hl, this]
  | none =>
    have := lookup_append_none s.tab n n s.cells.length hl
    simp [this]

/-- re-declaring `n` leaves every other name's function alone -/
theorem define_other (s : St β V) (n m : String) (b : β) (a : Nat) (hw : WF s)
    (hm : lookup s.tab m = some a) (hne : m ≠ n) : callRef (define s n b) a = callRef s a := by
  unfold define callRef
  cases hl : lookup s.tab n with
  | some a' =>
    have : a' ≠ a := fun e => hne (hw.inj m n a hm (e ▸ hl))
    simp [List.getElem?_set_ne this]
  | none =>
    have := hw.inRange m a hm
    simp [List.getElem?_append_left this]

theorem loadFuncs_wf (s : St β V) (fs : List (String × β)) (hw : WF s) : WF (loadFuncs s fs) := by
  induction fs generalizing s with
  | nil => exact hw
  | cons f fs ih => exact ih _ (define_wf s f.1 f.2 hw)

theorem loadFuncs_addr_stable (s : St β V) (fs : List (String × β)) (m : String) (a : Nat)
    (h : lookup s.tab m = some a) : lookup (loadFuncs s fs).tab m = some a := by
  induction fs generalizing s with
  | nil => exact h
  | cons f fs ih => exact ih _ (define_addr_stable s f.1 m f.2 a h)

theorem loadFuncs_other (s : St β V) (fs : List (String × β)) (m : String) (a : Nat) (hw : WF s)
    (hm : lookup s.tab m = some a) (hn : ∀ f ∈ fs, f.1 ≠ m) : callRef (loadFuncs s fs) a = callRef s a := by
  induction fs generalizing s with
  | nil => rfl
  | cons f fs ih =>
    have h1 : m ≠ f.1 := fun e => hn f (by simp) e.symm
    simp only [loadFuncs, List.foldl_cons]
    have := ih (define s f.1 f.2) (define_wf s f.1 f.2 hw) (define_addr_stable s f.1 m f.2 a hm)
      (fun g hg => hn g (by simp [hg]))
    simp only [loadFuncs] at this
    rw [this, define_other s f.1 m f.2 a hw hm h1]

/-- **reload_swaps_code.** After loading a package version whose functions have pairwise distinct
    names, every function `n` of that version runs its new body `b` — when called by name and
    when called through *any* function value captured earlier (address `a`), whether it sits in a
    variable, a struct field or a bound method. -/
theorem reload_swaps_code (s : St β V) (fs : List (String × β)) (hw : WF s)
    (hd : fs.Pairwise (fun f g => f.1 ≠ g.1)) (n : String) (b : β) (hin : (n, b) ∈ fs) :
    callName (loadFuncs s fs) n = some b ∧
    ∀ a, lookup s.tab n = some a → callRef (loadFuncs s fs) a = some b := by
  induction fs generalizing s with
  | nil => cases hin
  | cons f fs ih =>
    simp only [List.pairwise_cons] at hd
    simp only [loadFuncs, List.foldl_cons]
    rcases List.mem_cons.mp hin with rfl | hin'
    · -- defined now; the rest of the version does not touch it
      have hs := define_self s n b hw
      have hw' := define_wf s n b hw
      have hnot : ∀ g ∈ fs, g.1 ≠ n := fun g hg e => hd.1 g hg e.symm
      obtain ⟨a0, ha0⟩ : ∃ a0, lookup (define s n b).tab n = some a0 := by
        have := hs.1; unfold callName at this
        cases hl : lookup (define s n b).tab n with
        | none => simp [hl] at this
        | some a0 => exact ⟨a0, rfl⟩
      have hkeep := loadFuncs_other (define s n b) fs n a0 hw' ha0 hnot
      have hstab := loadFuncs_addr_stable (define s n b) fs n a0 ha0
      simp only [loadFuncs] at hkeep hstab
      refine ⟨?_, ?_⟩
      · have h1 := hs.1
        unfold callName at h1 ⊢
        rw [ha0] at h1
        rw [hstab]
        simp only [Option.bind_some] at h1 ⊢
        unfold callRef at hkeep
        rw [hkeep]; exact h1
      · intro a ha
        have e : a0 = a := by
          have := define_addr_stable s n n b a ha
          rw [ha0] at this; cases this; rfl
        subst e
        rw [hkeep]
        exact hs.2 a0 ha
    · have := ih (define s f.1 f.2) (define_wf s f.1 f.2 hw) hd.2 hin'
      simp only [loadFuncs] at this
      refine ⟨this.1, ?_⟩
      intro a ha
      exact this.2 a (define_addr_stable s f.1 n f.2 a ha)

/-- functions that a version does not mention keep their code -/
theorem reload_keeps_unmentioned (s : St β V) (fs : List (String × β)) (hw : WF s) (m : String) (a : Nat)
    (hm : lookup s.tab m = some a) (hn : ∀ f ∈ fs, f.1 ≠ m) :
    callRef (loadFuncs s fs) a = callRef s a := loadFuncs_other s fs m a hw hm hn

/-! ### package variables -/

theorem lookup_setVar_self (vars : List (String × V)) (n : String) (v : V) : lookup (setVar vars n v) n = some v := by
  simp [lookup, setVar]

theorem lookup_setVar_other (vars : List (String × V)) (n m : String) (v : V) (h : m ≠ n) :
    lookup (setVar vars n v) m = lookup vars m := by
  unfold lookup setVar
  have : ¬ (n = m) := fun e => h e.symm
  simp only [List.find?_cons, this, decide_false, List.find?_filter]
  congr 2
  funext a
  by_cases ha : a.1 = m
  · have : ¬ a.1 = n := fun e => h (ha.symm.trans e)
    simp [ha, this, h]
  · simp [ha]

/-- **var_without_initialiser_keeps_value** -/
theorem declZero_keeps (s : St β V) (n : String) (zero cur : V) (h : lookup s.vars n = some cur) :
    lookup (declZero s n zero).vars n = some cur := by
  simp [declZero, h]

theorem declZero_fresh (s : St β V) (n : String) (zero : V) (h : lookup s.vars n = none) :
    lookup (declZero s n zero).vars n = some zero := by
  simp [declZero, h, lookup_setVar_self]

/-- **var_with_initialiser_is_reset** -/
theorem declInit_resets (s : St β V) (n : String) (v : V) : lookup (declInit s n v).vars n = some v := by
  simp [declInit, lookup_setVar_self]

theorem declInit_other (s : St β V) (n m : String) (v : V) (h : m ≠ n) :
    lookup (declInit s n v).vars m = lookup s.vars m := by
  simp [declInit, lookup_setVar_other _ _ _ _ h]

/-! ### reloading unchanged source -/

theorem define_same (s : St β V) (n : String) (b : β) (a : Nat) (h1 : lookup s.tab n = some a)
    (h2 : s.cells[a]? = some b) : define s n b = s := by
  unfold define
  simp only [h1]
  have hlt : a < s.cells.length := (List.getElem?_eq_some_iff.mp h2).1
  have : s.cells.set a b = s.cells := by
    apply List.ext_getElem (by simp)
    intro i hi1 hi2
    by_cases e : a = i
    · subst e
      have := (List.getElem?_eq_some_iff.mp h2).2
      simp [this]
    · simp [List.getElem_set_ne e]
  rw [this]

/-- **reload_unchanged.** Loading the same version a second time changes nothing: every function
    keeps its cell and its code. -/
theorem reload_unchanged (s : St β V) (fs : List (String × β)) (hw : WF s)
    (hd : fs.Pairwise (fun f g => f.1 ≠ g.1)) :
    loadFuncs (loadFuncs s fs) fs = loadFuncs s fs := by
  have key : ∀ (S : St β V) (gs : List (String × β)),
      (∀ g ∈ gs, ∃ a, lookup S.tab g.1 = some a ∧ S.cells[a]? = some g.2) → loadFuncs S gs = S := by
    intro S gs
    induction gs with
    | nil => intro _; rfl
    | cons g gs ih =>
      intro h
      obtain ⟨a, h1, h2⟩ := h g (by simp)
      simp only [loadFuncs, List.foldl_cons]
      rw [define_same S g.1 g.2 a h1 h2]
      exact ih (fun x hx => h x (by simp [hx]))
  apply key
  intro g hg
  have := reload_swaps_code s fs hw hd g.1 g.2 (by simpa using hg)
  have h1 := this.1
  unfold callName at h1
  cases hl : lookup (loadFuncs s fs).tab g.1 with
  | none => simp [hl] at h1
  | some a => exact ⟨a, rfl, by simpa [hl] using h1⟩

/-! ### non-vacuity -/

def s0 : St String Nat := { cells := [], tab := [], vars := [] }
def v1 : Pkg String Nat := { funcs := [("F", "F@1"), ("T.M", "M@1")], zeros := [("Count", 0)], inits := [("Mode", 10)] }
def v2 : Pkg String Nat := { funcs := [("F", "F@2"), ("T.M", "M@2"), ("G", "G@2")], zeros := [("Count", 0)], inits := [("Mode", 20)] }

-- capture F (address 0) under v1, bump Count to 5, change Mode to 11, reload v2
example :
    let s1 := load s0 v1
    let s1' := { s1 with vars := setVar (setVar s1.vars "Count" 5) "Mode" 11 }
    let s2 := load s1' v2
    lookup s1.tab "F" = some 0 ∧ callRef s2 0 = some "F@2" ∧ callName s2 "T.M" = some "M@2" ∧
    lookup s2.vars "Count" = some 5 ∧ lookup s2.vars "Mode" = some 20 := by decide

/-! ### a recompiled body sees only its own types (compiler.go `enterFunc`) -/

open Goat.Resolve in
/-- **recompile_forgets.** Whatever was compiled before - any history of function, method, literal and init
    compilations (also of earlier versions of f itself) and of package-level definitions - once a body of f
    has been compiled, the table of globals holds under f's name exactly the types that THIS body declares:
    a reloaded function never resolves a name to a type of the version it replaces. -/
theorem recompile_forgets (h : List Ev) (hok : ∀ e ∈ h, e.ok) (f : String) (hf : f ≠ "") (tys : List String)
    (ty : String) : Key.ltype f ty ∈ (step (run h) (.compile f tys)).keys ↔ ty ∈ tys :=
  Goat.Resolve.recompile_forgets h hok f hf tys ty

open Goat.Resolve in
/-- **resolve_history_independent.** Two histories that define the same package-level names and builtins
    give the same resolution of every identifier in the body of a function compiled after them: what a
    (re)loaded body means does not depend on which versions were loaded before. -/
theorem resolve_history_independent (h1 h2 : List Ev) (ok1 : ∀ e ∈ h1, e.ok) (ok2 : ∀ e ∈ h2, e.ok)
    (same : ∀ k, (∀ f ty, k ≠ .ltype f ty) → (k ∈ (run h1).keys ↔ k ∈ (run h2).keys))
    (f : String) (hf : f ≠ "") (tys : List String) (locals : List String) (x : String) :
    resolve (step (run h1) (.compile f tys)) { fn := f, inScope := true, locals := locals } x
      = resolve (step (run h2) (.compile f tys)) { fn := f, inScope := true, locals := locals } x :=
  Goat.Resolve.resolve_history_independent h1 h2 ok1 ok2 same f hf tys locals x

example : Goat.Resolve.Key.ltype "main.f" "acc" ∈ (Goat.Resolve.run Goat.Resolve.hist).keys := by decide
example : Goat.Resolve.Key.ltype "main.f" "acc" ∉
    (Goat.Resolve.step (Goat.Resolve.run Goat.Resolve.hist) (.compile "main.f" [])).keys := by decide

end Goat.Props.C17

#print axioms Goat.Props.C17.reload_swaps_code
#print axioms Goat.Props.C17.reload_keeps_unmentioned
#print axioms Goat.Props.C17.reload_unchanged
#print axioms Goat.Props.C17.define_addr_stable
#print axioms Goat.Props.C17.loadFuncs_wf
#print axioms Goat.Props.C17.declZero_keeps
#print axioms Goat.Props.C17.declZero_fresh
#print axioms Goat.Props.C17.declInit_resets
#print axioms Goat.Props.C17.declInit_other
#print axioms Goat.Props.C17.recompile_forgets
#print axioms Goat.Props.C17.resolve_history_independent
