import Goat.Model.Incr
/-!
# C18 — incremental evaluation equals whole-program evaluation

In the model of `Eval` everything a top-level statement can read or change is in the persistent
state `σ` (global variables, global functions with late-bound bodies, output); the values of
expression statements are only appended to the call's result list. Then:

* `chunk_append` — evaluating `a ++ b` in one call is evaluating `a`, then `b` from the resulting
  state, and concatenating the returned values;
* `incremental_eq_whole` — for **every** way of cutting a program into consecutive chunks, feeding
  the chunks to successive `Eval` calls gives exactly the result of one call on the whole
  program: same output, same globals, same returned values — including the case that both fail;
* `statement_at_a_time` — in particular one statement per call.

The theorem is about the model; that goatlang's `Eval` behaves like the model (nothing else is
carried from one top-level statement to the next: local slots, jump offsets, the operand stack) is
what the correspondence and the whole-versus-chunked differential check.
-/
namespace Goat.Props.C18
open Goat.Incr

theorem chunk_append (s : State) (a b : List Item) :
    evalChunk s (a ++ b) = (do
      let (s1, r1) ← evalChunk s a
      let (s2, r2) ← evalChunk s1 b
      pure (s2, r1 ++ r2)) := by
  induction a generalizing s with
  | nil =>
    simp only [List.nil_append, evalChunk, bind, Option.bind, pure]
    cases evalChunk s b with
    | none => rfl
    | some p => simp
  | cons it rest ih =>
    simp only [List.cons_append, evalChunk, bind, Option.bind, pure]
    cases step s it with
    | none => rfl
    | some p1 =>
      obtain ⟨s1, r1⟩ := p1
      simp only []
      rw [ih s1]
      simp only [bind, Option.bind, pure]
      cases evalChunk s1 rest with
      | none => rfl
      | some p2 =>
        obtain ⟨s2, r2⟩ := p2
        simp only []
        cases evalChunk s2 b with
        | none => rfl
        | some p3 => simp [List.append_assoc]

/-- **incremental_eq_whole.** -/
theorem incremental_eq_whole (s : State) (chunks : List (List Item)) :
    evalChunks s chunks = evalChunk s chunks.flatten := by
  induction chunks generalizing s with
  | nil => rfl
  | cons c rest ih =>
    simp only [evalChunks, List.flatten_cons, chunk_append, bind, Option.bind, pure]
    cases evalChunk s c with
    | none => rfl
    | some p =>
      obtain ⟨s1, r1⟩ := p
      simp only []
      rw [ih s1]

/-- one statement per `Eval` call -/
theorem statement_at_a_time (s : State) (prog : List Item) :
    evalChunks s (prog.map fun it => [it]) = evalChunk s prog := by
  rw [incremental_eq_whole]
  congr 1
  induction prog with
  | nil => rfl
  | cons it rest ih => simp [ih]

/-- two different cuttings of the same program agree -/
theorem cut_independent (s : State) (c1 c2 : List (List Item)) (h : c1.flatten = c2.flatten) :
    evalChunks s c1 = evalChunks s c2 := by
  rw [incremental_eq_whole, incremental_eq_whole, h]

/-! ### non-vacuity: a program with a late-bound function, a loop and returned values -/

def prog : List Item :=
  [.defv "x" (.lit 1), .func "f" (.add (.var "x") (.lit 1)), .print (.call "f"), .setv "x" (.lit 5),
   .expr (.call "f"), .loop 4 "x", .expr (.var "x"), .ifpos (.sub (.var "x") (.lit 10)) "x" (.lit 0), .print (.var "x")]

example : (evalChunk {} prog).map (fun r => (r.1.out, r.2)) = some ([2, 0], [6, 11]) := by decide
example : (evalChunks {} [prog.take 2, prog.drop 2 |>.take 3, prog.drop 5]).map (fun r => (r.1.out, r.2)) = some ([2, 0], [6, 11]) := by decide
-- a use before the definition fails in both modes
example : evalChunk {} [.print (.call "g"), .func "g" (.lit 7)] = none := by decide

end Goat.Props.C18

#print axioms Goat.Props.C18.chunk_append
#print axioms Goat.Props.C18.incremental_eq_whole
#print axioms Goat.Props.C18.statement_at_a_time
#print axioms Goat.Props.C18.cut_independent
