import Goat.Model.Host
/-!
# C19 — the embedding API passes values faithfully in both directions

For every caller stack prefix `S` (whatever else is on the stack: a native call nested inside an
expression, any depth) and every argument list `A` of the declared length:

* `adapter_spec` — each of the six `NewFunc` adapters hands the native exactly `A`, in order
  (`fVar`: the fixed arguments followed by the unpacked variadic ones), leaves `S` untouched and
  appends the results in order;
* `native_call` — through `callReady` the caller receives exactly the first `xRets` results, or an
  error if the native returned fewer; a wrong argument count is an error;
* `variadic_native` — surplus arguments of a variadic native arrive, in order, after the fixed ones;
* `vmFunc_results` — `VM.Func` / `VM.Call` return exactly the requested number of results;
* `error_surfaces` — a native that panics makes the outer call fail (no partial stack is returned),
  and `vmFunc` of a failing callee fails.
-/
namespace Goat.Props.C19
open Goat.Host

variable {V : Type}

/-- what the native should see and what should come back -/
def seenArgs (n : Native V) (A : List V) : List V :=
  match n.form with
  | .f00 | .f01 => []
  | .fVar => A.take (n.argc - 1) ++ (match A.getLast? with | some l => n.unpack l | none => [])
  | _ => A

def pushed (n : Native V) (r : List V) : List V :=
  match n.form with
  | .f00 | .fN0 => []
  | .f01 | .fN1 => r.take 1
  | _ => r

def consumes (n : Native V) : Bool :=
  match n.form with
  | .f00 => false
  | _ => true

/-- **adapter_spec** -/
theorem adapter_spec (n : Native V) (S A : List V) (hA : A.length = n.argc)
    (h0 : n.form = .fVar → 0 < n.argc) :
    adapter n (S ++ A) =
      (n.body (seenArgs n A)).map fun r => (if consumes n then S else S ++ A) ++ pushed n r := by
  have hi : (S ++ A).length - n.argc = S.length := by simp [hA]
  unfold adapter seenArgs pushed consumes
  cases hf : n.form <;> simp only [hf, hi, List.take_left, List.drop_left]
  · cases n.body [] <;> simp
  · cases n.body [] <;> simp
  · cases n.body A <;> simp
  · rfl
  · cases n.body A <;> simp
  · have hpos := h0 hf
    cases hl : A.getLast? with
    | none =>
      have : A = [] := by simpa using hl
      subst this; simp at hA; omega
    | some l => rfl

/-- **native_call.** -/
theorem native_call (n : Native V) (S A : List V) (hA : A.length = n.argc) (xRets : Nat)
    (hc : consumes n = true) (h0 : n.form = .fVar → 0 < n.argc) :
    callReady n n.argc xRets (S ++ A) =
      match n.body (seenArgs n A) with
      | none => none
      | some r => if (pushed n r).length < xRets then none else some (S ++ (pushed n r).take xRets) := by
  unfold callReady
  have h1 : ¬ (S ++ A).length < n.argc := by simp [hA]
  have htop : (S ++ A).length - n.argc = S.length := by simp [hA]
  simp only [ne_eq, not_true_eq_false, if_false, h1, htop]
  rw [adapter_spec n S A hA h0]
  simp only [hc, if_true]
  cases n.body (seenArgs n A) with
  | none => rfl
  | some r =>
    simp only [Option.map_some, List.length_append]
    by_cases hx : (pushed n r).length < xRets
    · have : S.length + (pushed n r).length < S.length + xRets := by omega
      simp [this, hx]
    · have : ¬ S.length + (pushed n r).length < S.length + xRets := by omega
      simp only [this, hx, if_false]
      congr 1
      rw [List.take_append]
      simp
      exact List.take_of_length_le (by omega)

theorem wrong_arg_count (n : Native V) (xArgs xRets : Nat) (stack : List V) (h : xArgs ≠ n.argc) :
    callReady n xArgs xRets stack = none := by
  unfold callReady; simp [h]

/-- **variadic_native.** `fixed ++ extra` arguments (any number of extras, also none): the native
    sees `fixed ++ extra` provided unpacking a packed slice gives its elements back. -/
theorem variadic_native (mkSlice : List V → V) (n : Native V) (hv : n.form = .fVar)
    (hround : ∀ l, n.unpack (mkSlice l) = l)
    (S fixed extra : List V) (hf : fixed.length + 1 = n.argc) (xRets : Nat) :
    call mkSlice n (fixed.length + extra.length) xRets (S ++ fixed ++ extra) =
      match n.body (fixed ++ extra) with
      | none => none
      | some r => if r.length < xRets then none else some (S ++ r.take xRets) := by
  unfold call
  have hvar : isVariadic n = true := by simp [isVariadic, hv]
  have h1 : ¬ (fixed.length + extra.length + 1 < n.argc) := by omega
  have h2 : ¬ ((S ++ fixed ++ extra).length < fixed.length + extra.length) := by simp
  simp only [hvar, Bool.not_true, Bool.false_eq_true, if_false, h1, h2]
  have hn : fixed.length + extra.length + 1 - n.argc = extra.length := by omega
  have he : (S ++ fixed ++ extra).length - extra.length = (S ++ fixed).length := by simp; omega
  rw [hn, he, List.take_left, List.drop_left]
  have hargs : fixed.length + extra.length - extra.length + 1 = n.argc := by omega
  rw [hargs, List.append_assoc]
  have hA : (fixed ++ [mkSlice extra]).length = n.argc := by simp; omega
  have hc : consumes n = true := by simp [consumes, hv]
  rw [native_call n S (fixed ++ [mkSlice extra]) hA xRets hc (fun _ => by omega)]
  have hseen : seenArgs n (fixed ++ [mkSlice extra]) = fixed ++ extra := by
    simp only [seenArgs, hv, List.getLast?_append, List.getLast?_singleton, Option.some_or, hround]
    have : n.argc - 1 = fixed.length := by omega
    rw [this, List.take_left]
  have hp : ∀ r, pushed n r = r := by intro r; simp [pushed, hv]
  rw [hseen]
  cases n.body (fixed ++ extra) with
  | none => rfl
  | some r => simp only [hp]

/-- **vmFunc_results.** If the callee, run on the fresh stack holding just the parameters, leaves
    exactly `xRets` results, `VM.Func` returns exactly those. -/
theorem vmFunc_results (callee : Nat → Nat → List V → Option (List V)) (xRets : Nat) (params R : List V)
    (hR : R.length = xRets) (h : callee params.length xRets params = some R) :
    vmFunc callee xRets params = some R := by
  simp [vmFunc, h, hR]

/-- through a native: `VM.Func(native, xRets, A...)` returns the first `xRets` results -/
theorem vmFunc_native (n : Native V) (A : List V) (hA : A.length = n.argc) (xRets : Nat)
    (hc : consumes n = true) (h0 : n.form = .fVar → 0 < n.argc) (r : List V)
    (hb : n.body (seenArgs n A) = some r) (hx : xRets ≤ (pushed n r).length) :
    vmFunc (fun xa xr st => callReady n xa xr st) xRets A = some ((pushed n r).take xRets) := by
  have := native_call n [] A hA xRets hc h0
  simp only [List.nil_append] at this
  have hx' : ¬ (pushed n r).length < xRets := by omega
  simp only [vmFunc, hA, this, hb, hx', if_false, Option.map_some]
  congr 1
  have : ((pushed n r).take xRets).length = xRets := by simp; omega
  rw [this]; simp

/-- **error_surfaces.** -/
theorem error_surfaces (n : Native V) (S A : List V) (hA : A.length = n.argc) (xRets : Nat)
    (h0 : n.form = .fVar → 0 < n.argc) (hb : n.body (seenArgs n A) = none) :
    callReady n n.argc xRets (S ++ A) = none := by
  unfold callReady
  have h1 : ¬ (S ++ A).length < n.argc := by simp [hA]
  simp only [ne_eq, not_true_eq_false, if_false, h1]
  rw [adapter_spec n S A hA h0, hb]
  rfl

theorem vmFunc_error (callee : Nat → Nat → List V → Option (List V)) (xRets : Nat) (params : List V)
    (h : callee params.length xRets params = none) : vmFunc callee xRets params = none := by
  simp [vmFunc, h]

/-! ### non-vacuity -/

def swap2 : Native Nat := { form := .fNM, argc := 2, body := fun a => some a.reverse, unpack := fun _ => [] }
def sumVar : Native Nat := { form := .fVar, argc := 2, body := fun a => some [a.foldl (· + ·) 0, a.length], unpack := fun v => List.replicate v 1 }

-- the value form registered with an arity: the arguments are dropped, the result is delivered (fix b462b86)
example : callReady ({ form := .f01, argc := 2, body := fun _ => some [99], unpack := fun _ => [] } : Native Nat) 2 1 [7, 1, 2] = some [7, 99] := by decide
example : callReady swap2 2 2 [7, 8, 1, 2] = some [7, 8, 2, 1] := by decide
example : callReady swap2 2 1 [7, 8, 1, 2] = some [7, 8, 2] := by decide
example : callReady swap2 2 3 [7, 8, 1, 2] = none := by decide
example : callReady swap2 1 1 [7, 8, 1, 2] = none := by decide
-- variadic: fixed [10], extras packed as "3" which unpacks to [1,1,1]
example : call (fun l => l.length) sumVar 4 2 [9, 10, 1, 1, 1] = some [9, 13, 4] := by decide
example : vmFunc (fun xa xr st => callReady swap2 xa xr st) 2 [1, 2] = some [2, 1] := by decide

end Goat.Props.C19

#print axioms Goat.Props.C19.adapter_spec
#print axioms Goat.Props.C19.native_call
#print axioms Goat.Props.C19.wrong_arg_count
#print axioms Goat.Props.C19.variadic_native
#print axioms Goat.Props.C19.vmFunc_results
#print axioms Goat.Props.C19.vmFunc_native
#print axioms Goat.Props.C19.error_surfaces
#print axioms Goat.Props.C19.vmFunc_error
