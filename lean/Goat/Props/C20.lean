import Goat.Model.Backtrace
import Goat.Model.Peephole
import Goat.Props.C02
/-!
# C20 — run-time errors point at the failing line and the active call chain

* `report_eq_ancestors` — for every call tree (any depth, any branching, any position of the
  fault) the push/pop machine reports exactly the faulting position followed by the call sites
  that enclose it, innermost first; a run without fault leaves the backtrace stack as it found it
  (`balanced`), so nothing from a completed call ever shows up in a later report.
* `fused_pos_is_operator` (from C02's table: the fused instruction carries the position of its
  window's last instruction, the operator that can fail) and `opt_pos_from_input` — the peephole pass never
  invents a position: every instruction of the optimized code carries the position of an
  instruction of the unoptimized code (the last of its window); hence code whose instructions all
  lie on one line reports that line with the optimizer on or off (`opt_same_line`), and a window
  spanning several lines reports its operator's line in both modes.

That the compiler stamps the right position on each instruction (and that in the one window with
two fallible instructions, LOCALGET GETATTR CALL, both carry one line) is the differential part of
the check (planted faults, also with the operator and its operands on different lines, optimizer on
and off).
-/
namespace Goat.Props.C20
open Goat.Backtrace

mutual
theorem exec_spec : ∀ (n : Node) (bt : List Nat),
    exec bt n = match spec n with
      | some r => .error { r with chain := r.chain ++ bt }
      | none => .ok bt
  | .op _, _ => rfl
  | .fault _, _ => rfl
  | .call site body, bt => by
    simp only [exec, spec]
    rw [execs_spec body (site :: bt)]
    cases specs body with
    | none => rfl
    | some r => simp [List.append_assoc]
theorem execs_spec : ∀ (ns : Nodes) (bt : List Nat),
    execs bt ns = match specs ns with
      | some r => .error { r with chain := r.chain ++ bt }
      | none => .ok bt
  | .nil, _ => rfl
  | .cons n rest, bt => by
    simp only [execs, specs]
    rw [exec_spec n bt]
    cases spec n with
    | some r => rfl
    | none => exact execs_spec rest bt
end

/-- **report_eq_ancestors.** Started with an empty backtrace, the machine's report is the
    specification's: the failing position and its enclosing call sites, innermost first. -/
theorem report_eq_ancestors (prog : Nodes) :
    execs [] prog = match specs prog with
      | some r => .error r
      | none => .ok [] := by
  rw [execs_spec]
  cases specs prog with
  | none => rfl
  | some r => simp

/-- **balanced.** Code that completes leaves the backtrace stack exactly as it was. -/
theorem balanced (ns : Nodes) (bt : List Nat) (h : specs ns = none) : execs bt ns = .ok bt := by
  rw [execs_spec, h]

/-! ### positions under the peephole optimizer -/

open Goat.Peephole in
/-- **opt_pos_from_input.** One peephole pass never invents a position: every instruction it
    emits carries the position of an instruction of its input (for a fused instruction: of its
    window). -/
theorem doOpt_pos_from_input (rs : List Gen.Rule) (hr : ∀ r ∈ rs, r.pos < r.lhs.length) (l : List Instr) :
    ∀ i ∈ doOpt rs l, ∃ j ∈ l, i.pos = j.pos := by
  fun_induction doOpt rs l with
  | case1 => intro i hi; simp at hi
  | case2 x rest y k hm ih =>
    intro i hi
    simp only [List.mem_cons] at hi
    rcases hi with rfl | hi
    · -- the fused instruction: the position of an instruction of the window
      simp only [matchAt, Option.map_eq_some_iff] at hm
      obtain ⟨r, hfind, hb⟩ := hm
      have hmem : r ∈ rs := List.mem_of_find?_eq_some hfind
      have hf : fires r (x :: rest) = true := by
        have := List.find?_some hfind
        simpa using this
      have hl := Goat.Props.C02.fires_length hf
      have hlt : r.pos < (x :: rest).length := Nat.lt_of_lt_of_le (hr r hmem) hl
      have : i = build r (x :: rest) := by cases hb; rfl
      refine ⟨(x :: rest)[r.pos], List.getElem_mem hlt, ?_⟩
      rw [this]
      simp only [build]
      rw [List.getElem?_eq_getElem hlt]
      rfl
    · obtain ⟨j, hj, e⟩ := ih i hi
      exact ⟨j, List.mem_of_mem_drop hj, e⟩
  | case3 x rest hm ih =>
    intro i hi
    simp only [List.mem_cons] at hi
    rcases hi with rfl | hi
    · exact ⟨i, by simp, rfl⟩
    · obtain ⟨j, hj, e⟩ := ih i hi
      exact ⟨j, by simp [hj], e⟩

open Goat.Peephole in
theorem optimize_pos_from_input (l : List Instr) : ∀ i ∈ optimize l, ∃ j ∈ l, i.pos = j.pos := by
  have hr : ∀ r ∈ Gen.peephole, r.pos < r.lhs.length := fun r h => by
    have := Goat.Props.C02.rule_pos r h; omega
  unfold optimize
  generalize List.range Gen.optimizePasses = passes
  induction passes generalizing l with
  | nil => intro i hi; exact ⟨i, hi, rfl⟩
  | cons _ ps ih =>
    intro i hi
    simp only [List.foldl_cons] at hi
    obtain ⟨j, hj, e⟩ := ih _ i hi
    obtain ⟨k, hk, e2⟩ := doOpt_pos_from_input Gen.peephole hr l j hj
    exact ⟨k, hk, e.trans e2⟩

open Goat.Peephole in
/-- **fused_pos_is_operator.** Whenever a rule of the table fires, the instruction it emits carries
    the position of the LAST instruction of the window it replaces. In every window that is the
    operator that can fail (GET, SET, CALL, ADD …, SETATTR; in LOCALGET GETATTR CALL the selection is
    stamped by the compiler with the selected name, which stands directly before the call's "("),
    preceded by operand loads, so the optimized code reports a fault at the position the
    unoptimized code reports it — wherever the line breaks of the statement are. -/
theorem fused_pos_is_operator (l : List Instr) (i : Instr) (k : Nat)
    (h : matchAt Gen.peephole l = some (i, k)) :
    ∃ j, l[k - 1]? = some j ∧ i.pos = j.pos ∧ 0 < k := by
  simp only [matchAt, Option.map_eq_some_iff] at h
  obtain ⟨r, hfind, hb⟩ := h
  have hmem : r ∈ Gen.peephole := List.mem_of_find?_eq_some hfind
  have hf : fires r l = true := by
    have := List.find?_some hfind
    simpa using this
  obtain ⟨j, hj, e⟩ := Goat.Props.C02.build_pos r hmem l hf
  have hp := Goat.Props.C02.rule_pos r hmem
  cases hb
  exact ⟨j, hj, e, by omega⟩

open Goat.Peephole in
/-- **opt_same_line.** Code whose instructions all carry one position reports that position with
    the optimizer on or off. -/
theorem opt_same_line (l : List Instr) (p : Nat) (h : ∀ j ∈ l, j.pos = p) : ∀ i ∈ optimize l, i.pos = p := by
  intro i hi
  obtain ⟨j, hj, e⟩ := optimize_pos_from_input l i hi
  rw [e]; exact h j hj

/-! ### the position word -/

theorem packPos_arith (fi gi line col : Nat) (hg : gi < 65536) :
    packPos fi gi line col = fi * 2^48 + gi * 2^32 + (min line 65535) * 2^16 + min col 65535 := by
  unfold packPos
  have hc : min col 65535 < 2 ^ 16 := by omega
  have h1 : (min line 0xffff) <<< 16 ||| min col 0xffff = (min line 65535) * 2^16 + min col 65535 := by
    rw [← Nat.shiftLeft_add_eq_or_of_lt hc, Nat.shiftLeft_eq]
  have h2 : (gi <<< 32) ||| ((min line 65535) * 2^16 + min col 65535) = gi * 2^32 + ((min line 65535) * 2^16 + min col 65535) := by
    rw [← Nat.shiftLeft_add_eq_or_of_lt (by omega), Nat.shiftLeft_eq]
  have h3 : (fi <<< 48) ||| (gi * 2^32 + ((min line 65535) * 2^16 + min col 65535)) = fi * 2^48 + (gi * 2^32 + ((min line 65535) * 2^16 + min col 65535)) := by
    rw [← Nat.shiftLeft_add_eq_or_of_lt (by omega), Nat.shiftLeft_eq]
  rw [Nat.or_assoc, Nat.or_assoc, h1, h2, h3]
  omega

theorem packPos_fields (fi gi line col : Nat) (hf : fi < 65536) (hg : gi < 65536) :
    posInfo (packPos fi gi line col) = (fi, gi, min line 65535, min col 65535) := by
  rw [packPos_arith fi gi line col hg]
  simp only [posInfo, Nat.shiftRight_eq_div_pow]
  have m : ∀ x : Nat, x &&& 0xffff = x % 65536 := fun x => by
    have := Nat.and_two_pow_sub_one_eq_mod x 16
    simpa using this
  simp only [m]
  refine Prod.ext ?_ (Prod.ext ?_ (Prod.ext ?_ ?_)) <;> simp <;> omega

theorem satIdx_lt (i : Nat) : satIdx i < 65536 := by unfold satIdx; split <;> omega

/-- **pos_fields.** For EVERY file-name index, function-name index, line and column - also beyond
    65535 - the error handler reads back name indices that were really packed: an index inside the
    name table comes back unchanged, one past its end comes back as 0 (the entry that names nothing),
    and line and column come back exact below 65536 and saturated above. No field spills into a
    neighbour, so a long file, a long line or a program with very many names cannot make the handler
    name another function or file, nor look up a name that does not exist (which, inside the
    deferred recover, would be a panic escaping to the host). -/
theorem pos_fields (fi gi line col : Nat) :
    posInfo (newPos fi gi line col) = (satIdx fi, satIdx gi, min line 65535, min col 65535) :=
  packPos_fields _ _ line col (satIdx_lt fi) (satIdx_lt gi)

theorem pos_fields_small (fi gi line col : Nat) (hf : fi < 65536) (hg : gi < 65536) :
    posInfo (newPos fi gi line col) = (fi, gi, min line 65535, min col 65535) := by
  rw [pos_fields]; unfold satIdx; simp only [show ¬ fi > 0xffff by omega, show ¬ gi > 0xffff by omega, if_false]

example : posInfo (newPos 70000 7 3 12) = (0, 7, 3, 12) := by decide
example : posInfo (newPos 3 7 70000 12) = (3, 7, 65535, 12) := by decide

/-! ### non-vacuity: main → f (line 10) → g (line 20) → fault at 31, after a completed call to h -/

def tree : Nodes :=
  .cons (.op 1) (.cons (.call 2 (.cons (.op 40) .nil))          -- h() returns
    (.cons (.call 10 (.cons (.op 19) (.cons (.call 20 (.cons (.op 30) (.cons (.fault 31) .nil))) .nil)))
      (.cons (.op 3) .nil)))

example : execs [] tree = .error { at_ := 31, chain := [20, 10] } := by rfl
example : specs tree = some { at_ := 31, chain := [20, 10] } := by decide

end Goat.Props.C20

#print axioms Goat.Props.C20.exec_spec
#print axioms Goat.Props.C20.report_eq_ancestors
#print axioms Goat.Props.C20.balanced
#print axioms Goat.Props.C20.doOpt_pos_from_input
#print axioms Goat.Props.C20.optimize_pos_from_input
#print axioms Goat.Props.C20.fused_pos_is_operator
#print axioms Goat.Props.C20.pos_fields
#print axioms Goat.Props.C20.opt_same_line
