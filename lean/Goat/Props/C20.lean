import Goat.Model.Backtrace
import Goat.Model.Peephole
import Goat.Props.C02
/-!
# C20 — run-time errors point at the failing line and the active call chain

* `report_eq_ancestors` — for every call tree (any depth, any branching, any position of the
  fault) the push/pop machine reports exactly the faulting position followed by the call sites
  that enclose it, innermost first; a run without fault leaves the backtrace stack as it found it
  (`balanced`), so nothing from a completed call ever shows up in a later report.
* `fused_keeps_first_pos` (from C02's table) and `opt_pos_from_input` — the peephole pass never
  invents a position: every instruction of the optimized code carries the position of an
  instruction of the unoptimized code (the first of its window); hence code whose instructions all
  lie on one line reports that line with the optimizer on or off (`opt_same_line`).

That the compiler stamps the right position on each instruction, and that windows spanning several
lines still report the same line in both modes, is the differential part of the check (planted
faults, optimizer on and off).
-/
namespace Goat.Props.C20
open Goat.Backtrace

mutual
theorem exec_spec : ∀ (n : Node) (bt : List Nat),
    exec bt n = match spec n with
      | some r => .error { r with chain := r.chain ++ bt }
      | none => .ok bt
  | .op _, _ => rfl
  | .fault _, _ => rfl
  | .call site body, bt => by
    simp only [exec, spec]
    rw [execs_spec body (site :: bt)]
    cases specs body with
    | none => rfl
    | some r => simp [List.append_assoc]
theorem execs_spec : ∀ (ns : Nodes) (bt : List Nat),
    execs bt ns = match specs ns with
      | some r => .error { r with chain := r.chain ++ bt }
      | none => .ok bt
  | .nil, _ => rfl
  | .cons n rest, bt => by
    simp only [execs, specs]
    rw [exec_spec n bt]
    cases spec n with
    | some r => rfl
    | none => exact execs_spec rest bt
end

/-- **report_eq_ancestors.** Started with an empty backtrace, the machine's report is the
    specification's: the failing position and its enclosing call sites, innermost first. -/
theorem report_eq_ancestors (prog : Nodes) :
    execs [] prog = match specs prog with
      | some r => .error r
      | none => .ok [] := by
  rw [execs_spec]
  cases specs prog with
  | none => rfl
  | some r => simp

/-- **balanced.** Code that completes leaves the backtrace stack exactly as it was. -/
theorem balanced (ns : Nodes) (bt : List Nat) (h : specs ns = none) : execs bt ns = .ok bt := by
  rw [execs_spec, h]

/-! ### positions under the peephole optimizer -/

open Goat.Peephole in
/-- **opt_pos_from_input.** One peephole pass never invents a position: every instruction it
    emits carries the position of an instruction of its input. -/
theorem doOpt_pos_from_input (rs : List Gen.Rule) (hr : ∀ r ∈ rs, r.pos = 0) (l : List Instr) :
    ∀ i ∈ doOpt rs l, ∃ j ∈ l, i.pos = j.pos := by
  fun_induction doOpt rs l with
  | case1 => intro i hi; simp at hi
  | case2 x rest y k hm ih =>
    intro i hi
    simp only [List.mem_cons] at hi
    rcases hi with rfl | hi
    · -- the fused instruction: position of the window's first instruction
      simp only [matchAt, Option.map_eq_some_iff] at hm
      obtain ⟨r, hfind, hb⟩ := hm
      have hmem : r ∈ rs := List.mem_of_find?_eq_some hfind
      have : i = build r (x :: rest) := by cases hb; rfl
      exact ⟨x, by simp, by simp [this, build, hr r hmem]⟩
    · obtain ⟨j, hj, e⟩ := ih i hi
      exact ⟨j, List.mem_of_mem_drop hj, e⟩
  | case3 x rest hm ih =>
    intro i hi
    simp only [List.mem_cons] at hi
    rcases hi with rfl | hi
    · exact ⟨i, by simp, rfl⟩
    · obtain ⟨j, hj, e⟩ := ih i hi
      exact ⟨j, by simp [hj], e⟩

open Goat.Peephole in
theorem optimize_pos_from_input (l : List Instr) : ∀ i ∈ optimize l, ∃ j ∈ l, i.pos = j.pos := by
  have hr : ∀ r ∈ Gen.peephole, r.pos = 0 := Goat.Props.C02.rule_pos
  unfold optimize
  generalize List.range Gen.optimizePasses = passes
  induction passes generalizing l with
  | nil => intro i hi; exact ⟨i, hi, rfl⟩
  | cons _ ps ih =>
    intro i hi
    simp only [List.foldl_cons] at hi
    obtain ⟨j, hj, e⟩ := ih _ i hi
    obtain ⟨k, hk, e2⟩ := doOpt_pos_from_input Gen.peephole hr l j hj
    exact ⟨k, hk, e.trans e2⟩

open Goat.Peephole in
/-- **opt_same_line.** Code whose instructions all carry one position reports that position with
    the optimizer on or off. -/
theorem opt_same_line (l : List Instr) (p : Nat) (h : ∀ j ∈ l, j.pos = p) : ∀ i ∈ optimize l, i.pos = p := by
  intro i hi
  obtain ⟨j, hj, e⟩ := optimize_pos_from_input l i hi
  rw [e]; exact h j hj

/-! ### non-vacuity: main → f (line 10) → g (line 20) → fault at 31, after a completed call to h -/

def tree : Nodes :=
  .cons (.op 1) (.cons (.call 2 (.cons (.op 40) .nil))          -- h() returns
    (.cons (.call 10 (.cons (.op 19) (.cons (.call 20 (.cons (.op 30) (.cons (.fault 31) .nil))) .nil)))
      (.cons (.op 3) .nil)))

example : execs [] tree = .error { at_ := 31, chain := [20, 10] } := by rfl
example : specs tree = some { at_ := 31, chain := [20, 10] } := by decide

end Goat.Props.C20

#print axioms Goat.Props.C20.exec_spec
#print axioms Goat.Props.C20.report_eq_ancestors
#print axioms Goat.Props.C20.balanced
#print axioms Goat.Props.C20.doOpt_pos_from_input
#print axioms Goat.Props.C20.optimize_pos_from_input
#print axioms Goat.Props.C20.opt_same_line
