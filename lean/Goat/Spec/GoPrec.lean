import Goat.Model.Pratt
/-!
# What the Go specification prescribes for operator precedence

"Unary operators have the highest precedence. … There are five precedence levels for binary
operators. Multiplication operators bind strongest, followed by addition operators, comparison
operators, && (logical AND), and finally || (logical OR):

    5   *  /  %  <<  >>  &  &^
    4   +  -  |  ^
    3   ==  !=  <  <=  >  >=
    2   &&
    1   ||

Binary operators of the same precedence associate from left to right."

`&^` is not a token of goatlang (it lexes as `&` followed by unary `^`, which computes the
same value — see `andnot_equiv` in Props/C05); the table lists the other eighteen.
-/
namespace GoSpec

open Goat.Pratt

def goTable : Table :=
  { bin := [("*", 5), ("/", 5), ("%", 5), ("<<", 5), (">>", 5), ("&", 5),
            ("+", 4), ("-", 4), ("|", 4), ("^", 4),
            ("==", 3), ("!=", 3), ("<", 3), ("<=", 3), (">", 3), (">=", 3),
            ("&&", 2), ("||", 1)],
    pre := [("-", 6), ("^", 6), ("!", 6)],
    parenBP := 0 }

end GoSpec
