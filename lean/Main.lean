import Goat.Driver.Parse
import Goat.Driver.Num
/-! goatmodel: one operation per input line, one canonical output line per operation. -/
open Goat.Driver

def step (line : String) : String :=
  match (line.trimAscii.toString.splitOn " ").filter (· ≠ "") with
  | "parse" :: args => parseCmd args
  | "num" :: args => numCmd args
  | _ => "bad-op"

partial def loop (h : IO.FS.Stream) (out : IO.FS.Stream) : IO Unit := do
  let line ← h.getLine
  if line.isEmpty then return ()
  out.putStrLn (step line)
  out.flush
  loop h out

def main : IO Unit := do loop (← IO.getStdin) (← IO.getStdout)
