import Goat.Driver.Parse
import Goat.Driver.Num
import Goat.Driver.OMap
import Goat.Driver.Load
import Goat.Driver.TreeSort
import Goat.Driver.Scope
import Goat.Driver.Opt
import Goat.Driver.Check
import Goat.Driver.IntMap
import Goat.Driver.CF
import Goat.Driver.Call
import Goat.Driver.Slice
import Goat.Driver.Str
import Goat.Driver.Print
import Goat.Driver.Reload
import Goat.Driver.Incr
import Goat.Driver.Host
import Goat.Driver.Backtrace
import Goat.Driver.MiniGo
import Goat.Driver.Resolve
import Goat.Driver.Struct
import Goat.Driver.Tuple
/-! goatmodel: one operation per input line, one canonical output line per operation. -/
open Goat.Driver

structure DriverState where
  omap : OMapState := {}
  scope : Goat.Scope.C := {}
  imap : IMapState := {}
  slice : SliceState := {}
  heap : Goat.Print.Heap := []
  rl : RlState := {}
  rs : Goat.Resolve.Tab := { keys := [], compiled := [] }
  st : Goat.Struct.Heap Int := default
  tobj : Option (Goat.Struct.TObj String) := none

def step (st : DriverState) (line : String) : DriverState × String :=
  match (line.trimAscii.toString.splitOn " ").filter (· ≠ "") with
  | "parse" :: args => (st, parseCmd args)
  | "num" :: args => (st, numCmd args)
  | "load" :: args => (st, loadCmd args)
  | "tsort" :: args => (st, tsortCmd args)
  | "opt" :: args => (st, optCmd args)
  | "str" :: args => (st, strCmd args)
  | "mini" :: args => (st, miniCmd args)
  | "bt" :: args => (st, btCmd args)
  | "host" :: args => (st, hostCmd false args)
  | "hostfunc" :: args => (st, hostCmd true args)
  | "incr" :: args => (st, incrCmd args)
  | "rs" :: args => let (r, o) := rsCmd st.rs args; ({ st with rs := r }, o)
  | "rl" :: args => let (r, o) := rlCmd st.rl args; ({ st with rl := r }, o)
  | "print" :: args => let (h, o) := printCmd st.heap args; ({ st with heap := h }, o)
  | "slice" :: args => let (s, o) := sliceCmd st.slice args; ({ st with slice := s }, o)
  | "call" :: args => (st, callCmd args)
  | "cf" :: args => (st, cfCmd args)
  | "ta" :: args => (st, taCmd args)
  | "to" :: args => let (t, o) := toCmd st.tobj args; ({ st with tobj := t }, o)
  | "st" :: args => let (h, o) := stCmd st.st args; ({ st with st := h }, o)
  | "imap" :: args => let (s, o) := imapCmd st.imap args; ({ st with imap := s }, o)
  | "verify" :: args => (st, verifyCmd args)
  | "effect" :: args => (st, effectCmd args)
  | "scope" :: args => let (s, o) := scopeCmd st.scope args; ({ st with scope := s }, o)
  | "omap" :: args => let (s, o) := omapCmd st.omap args; ({ st with omap := s }, o)
  | _ => (st, "bad-op")

partial def loop (h : IO.FS.Stream) (out : IO.FS.Stream) (st : DriverState) : IO Unit := do
  let line ← h.getLine
  if line.isEmpty then return ()
  let (st', o) := step st line
  out.putStrLn o
  out.flush
  loop h out st'

def main : IO Unit := do loop (← IO.getStdin) (← IO.getStdout) {}
