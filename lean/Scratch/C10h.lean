import Goat.Props.C10
namespace Goat.Props.C10
open Goat.OMap
variable {K V : Type} [DecidableEq K]

/-- the specification: a Go map as a function, one step per operation -/
def specStep (f : K → Option V) : Op K V → (K → Option V)
  | .set k v => fun k' => if k' = k then some v else f k'
  | .del k _ => fun k' => if k' = k then none else f k'

/-- **history_refines.** After any history of sets and deletes (every delete compacting to whatever
    order of the live keys), lookup of every key is what the finite-map specification gives. -/
theorem history_refines (m : M K V) (h : Inv m) (ops : List (Op K V)) (hv : Valid m ops) (k : K) :
    (ops.foldl apply m).get k = (ops.foldl specStep m.get) k := by
  induction ops generalizing m with
  | nil => rfl
  | cons op ops ih =>
    cases op with
    | set k1 v =>
      simp only [List.foldl_cons, apply, specStep]
      rw [ih _ (inv_set m k1 v h) hv]
      have e : (m.set k1 v).get = fun k' => if k' = k1 then some v else m.get k' :=
        funext fun k' => get_set m k1 k' v
      rw [e]
    | del k1 p =>
      simp only [List.foldl_cons, apply, specStep]
      rw [ih _ (inv_delete m k1 p h hv.1) hv.2]
      have e : (m.delete k1 p).get = fun k' => if k' = k1 then none else m.get k' :=
        funext fun k' => get_delete m h k1 k' p
      rw [e]

/-- and `len` is the number of keys the specification maps to a value, counted over any list of
    candidate keys without duplicates that covers the live ones -/
theorem len_refines (m : M K V) (h : Inv m) (ops : List (Op K V)) (hv : Valid m ops) :
    let m' := ops.foldl apply m
    m'.len = m'.live.length ∧ ∀ k, k ∈ m'.live ↔ ((ops.foldl specStep m.get) k).isSome := by
  intro m'
  have hi := inv_history m h ops hv
  obtain ⟨h1, _, h3⟩ := len_counts m' hi
  refine ⟨h1, fun k => ?_⟩
  rw [h3 k, history_refines m h ops hv k]
end Goat.Props.C10
#print axioms Goat.Props.C10.history_refines
#print axioms Goat.Props.C10.len_refines
