import Goat.Lemmas.Resolve
namespace Goat.Resolve
open Gen

/-- **resolve_layout_independent.** Two tables - the table of globals as two different compile orders of the
    package's declarations leave it when the body of a function is reached - that agree on the function's own
    types and on the builtins give the same resolution of an identifier, provided they agree on the package-level
    key of every identifier that is ALSO a builtin. (For every other identifier the order cannot matter: a
    package-level name that is not there yet is a forward reference to the same key.) -/
theorem resolve_layout_independent (t1 t2 : Tab) (c : Ctx) (x : String)
    (hl : Key.ltype c.fn x ∈ t1.keys ↔ Key.ltype c.fn x ∈ t2.keys)
    (hb : Key.builtin x ∈ t1.keys ↔ Key.builtin x ∈ t2.keys)
    (hg : Key.builtin x ∈ t1.keys → (Key.glob x ∈ t1.keys ↔ Key.glob x ∈ t2.keys)) :
    resolve t1 c x = resolve t2 c x := by
  by_cases hd : x = "$" <;> by_cases hs : (c.inScope = true ∧ Key.ltype c.fn x ∈ t2.keys) <;> by_cases hx : x ∈ c.locals <;>
    by_cases hbx : Key.builtin x ∈ t1.keys
  all_goals first
    | (have hg' := hg hbx
       simp [resolve, resolveWith, Gen.resolveOrder, firstSome, tryStep, hl, ← hb, hg', hd, hs, hx, hbx])
    | (have hbx2 : Key.builtin x ∉ t2.keys := fun h => hbx (hb.mpr h)
       by_cases h1 : Key.glob x ∈ t1.keys <;> by_cases h2 : Key.glob x ∈ t2.keys <;>
         simp [resolve, resolveWith, Gen.resolveOrder, firstSome, tryStep, hl, hbx, hbx2, h1, h2, hd, hs, hx])

/-- in particular: no package-level name of the package is spelled like a builtin -/
theorem resolve_layout_independent_of_no_clash (t1 t2 : Tab) (c : Ctx) (x : String)
    (hl : Key.ltype c.fn x ∈ t1.keys ↔ Key.ltype c.fn x ∈ t2.keys)
    (hb : Key.builtin x ∈ t1.keys ↔ Key.builtin x ∈ t2.keys)
    (n1 : Key.builtin x ∈ t1.keys → Key.glob x ∉ t1.keys) (n2 : Key.builtin x ∈ t2.keys → Key.glob x ∉ t2.keys) :
    resolve t1 c x = resolve t2 c x :=
  resolve_layout_independent t1 t2 c x hl hb (fun h => ⟨fun g => absurd g (n1 h), fun g => absurd g (n2 (hb.mp h))⟩)

/-- the excluded case is real: a package-level function spelled like a builtin is found when it was compiled
    before the reference and the builtin is taken when it comes after (open finding C16 builtin-named-function) -/
theorem builtin_clash_order_dependent :
    resolve { keys := [.builtin "println", .glob "println"], compiled := [] } { fn := "main.use", inScope := true, locals := [] } "println"
      ≠ resolve { keys := [.builtin "println"], compiled := [] } { fn := "main.use", inScope := true, locals := [] } "println" := by
  decide
end Goat.Resolve
