#!/bin/sh
# Build the framework offline from files on disk.
set -e
cd "$(dirname "$0")"
exec python3 ./check --setup
