#!/bin/bash
# usage: all_seeds.sh [tier] [regex on the seed name]   re-applies every kept seeded change to /repo in turn, runs the property's check,
# expects a VIOLATION line, restores /repo. Prints one line per seed; exit 1 if any seed is missed.
set -u
TIER=${1:-quick}
ONLY=${2:-.}
export GOFLAGS=-mod=mod GOPROXY=off GOSUMDB=off GOTOOLCHAIN=local
cd /repo || exit 2
if [ -n "$(git status --porcelain)" ]; then echo "repo dirty"; exit 2; fi
mkdir -p /tmp/allseeds-ev; cp /verif/evidence/*.json /tmp/allseeds-ev/
missed=0
for d in /verif/seeded/*/; do
  n=$(basename "$d"); p=${n%%-*}
  [ -f "$d/patch.diff" ] || continue
  echo "$n" | grep -Eq "$ONLY" || continue
  # some seeds predate later fix commits; apply with 3-way fallback
  if ! git -C /repo apply "$d/patch.diff" 2>/dev/null; then echo "$n: patch no longer applies"; continue; fi
  out=$(cd /verif && ./check "$p" --tier "$TIER" 2>&1)
  if echo "$out" | grep -q "^VIOLATION property=$p"; then echo "$n: caught"; else echo "$n: MISSED"; missed=1; fi
  git -C /repo checkout -- .
done
cp /tmp/allseeds-ev/*.json /verif/evidence/; rm -rf /tmp/allseeds-ev
go clean -cache # every seeded tree leaves its own objects in the build cache (some 100 GB after a few runs)
exit $missed
