#!/bin/bash
# usage: explore.sh <dir with *.go programs>   (handwritten programs through the Go-toolchain differential; a tool, not a check)
set -e
export GOFLAGS=-mod=mod GOPROXY=off GOSUMDB=off GOTOOLCHAIN=local
cd /verif/harness && go build -tags verif -o /tmp/goath-explore . && VERIF_EXPLORE_DIR="$1" /tmp/goath-explore EXPLORE; rm -f /tmp/goath-explore
