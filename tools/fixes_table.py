#!/usr/bin/env python3
"""fixes_table.py: regenerate the table of repaired defects in DESIGN.md (section 0a.2) from known_findings.json"""
import json, re
d = json.load(open('/verif/known_findings.json'))
rows = []
for f in d['findings']:
    if f.get('status') != 'fixed':
        continue
    m = re.match(r'fixed: property=(C\d+) (\w+) (.*)', f['what'], re.S)
    what = m.group(3).replace('|', '\\|').replace('\n', ' ')
    rows.append("| %s | %s | %s |" % (m.group(1), m.group(2), what))
p = '/verif/DESIGN.md'
s = open(p).read()
a = s.index('### 0a.2 Genuine defects found and repaired')
b = s.index('Withdrawn from the round-0 inventory')
hdr = '''### 0a.2 Genuine defects found and repaired in /repo (one `fix:` commit each; the suite passes unedited)

This table is generated from `known_findings.json` by `tools/fixes_table.py` (%d entries).

| property | commit | what failed |
|---|---|---|
''' % len(rows)
open(p, 'w').write(s[:a] + hdr + '\n'.join(rows) + '\n\n' + s[b:])
print(len(rows), 'fixes')
