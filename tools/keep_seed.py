#!/usr/bin/env python3
"""keep_seed.py <name> <property> <outdir> <caught-by text>: store a confirmed seeded change under /verif/seeded/<name>/"""
import json, os, shutil, sys
name, prop, src, caught = sys.argv[1:5]
d = os.path.join('/verif/seeded', name)
os.makedirs(d, exist_ok=True)
shutil.copy(os.path.join(src, 'patch.diff'), os.path.join(d, 'patch.diff'))
shutil.copy(os.path.join(src, 'demo_test.go'), os.path.join(d, 'demo_test.go.txt'))
try:
    meta = json.load(open(os.path.join(src, 'meta.json')))
except Exception:
    meta = {}
meta['property'] = prop
meta['confirmed'] = "tools/try_seed.sh: demo passes on the unchanged tree, fails with the patch; existing suite passes with the patch; builds with -tags verif"
meta['check_result'] = caught
json.dump(meta, open(os.path.join(d, 'meta.json'), 'w'), indent=1)
print('kept', d)
