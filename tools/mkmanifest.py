#!/usr/bin/env python3
"""Regenerates /verif/MANIFEST.json from the table below (kept next to the checks so the two stay in step)."""
import json, os
V = os.path.dirname(os.path.dirname(os.path.abspath(__file__)))
props = [json.loads(l) for l in open(os.path.join(V, "properties.jsonl"))]

CLAIMS = {
 "C02": dict(
  text="Machine-checked (Lean 4 kernel) on the peephole rule table regenerated from compiler.go on this run: every one of the 16 rules replaces its window by an instruction with the same effect on locals, operand stack and heap and the same failure behaviour, for all values, stacks, heaps and callees (rule_sound over an abstract-value stack machine; the value laws it uses are proved for the C04 integer model: num_sub_untyped, num_incdec_type); the fused instruction keeps the first instruction's position (rule_pos, build_pos); after the two passes of optimize no rule fires at any position, so re-optimising an enclosing block is the identity and cannot move a jump target (opt_stable, optimize_idempotent, via facts fact_H/P1/P2/I/G/len decided on the table); no window contains a jump, short-circuit, loop, function-header or placeholder instruction (windows_avoid_control); the 16-bit operand packing round-trips (split_join). PARTIAL: 'optimized and unoptimized compilation of any program behave the same' additionally needs the compile schemes; it is covered by search: optimizer off vs on for every string literal of the repository's test files, a regression corpus and generated programs (stdout, values with dynamic types, error line). The table interpreter is tied to doOptimize by an instruction-for-instruction correspondence (1, 2, 3 passes) and each rule window is run against its fused form on the real VM.",
  note="Trusted: Lean kernel; axioms propext, Quot.sound, Classical.choice; goatx (rule shapes; an unrecognised case is fail-closed); PrimLaws (x-k = x+(-k), Get/Set by untyped k vs Int(k), x+k keeps x's type) are assumptions about values, proved for the integer model and exercised on the real VM for typed numeric slots - they do not hold for an untyped or nil slot, which compiled code never increments; calls and heap objects are abstract (same primitive on both sides); error messages name different opcodes on the two sides (only outcome and line are compared); SmallOperands: argument/result counts below 32768.",
  technique="Lean 4 proof (per-rule soundness over an abstract stack machine; two-pass fixpoint by suffix/window analysis with table facts by decide) + rule-table/doOptimize correspondence + fused-vs-unfused differential on the real VM + optimizer off/on search",
  ref="7/C02"),
 "C04": dict(
  text="Machine-checked (Lean 4 kernel) for every operand value of int8/uint8/int32/uint32: the model of value.go's operator arms (tags regenerated from value.go on this run) selects the arm Go's typing prescribes and computes exactly Go's two's-complement result with the operand type kept (binop_arm, binop_typed), untyped constants adopt the typed operand's type on either side (untyped_adopts), shifts keep the left operand's type for any count type and reject negative counts (shift_typed), ++/--/op=/+k, unary - and ^ (incdec_typed, negate_typed, complement_typed), conversions and stores (convert_int, conv_inRange, assign_untyped, assign_typed), results stay in range (toZ_inRange, binop_wt), integer division by zero is an error. The model is tied to the real opAdd.../assign/convert by a correspondence that is exhaustive for the 8-bit types; native Go arithmetic through script functions in every syntactic position is the search oracle. float64 operations are delegated to the host (checked bit-for-bit by search only).",
  note="Trusted: Lean kernel; axioms propext, Quot.sound, Classical.choice; goatx (type tags, CAST list); float64 arithmetic and float<->int conversion are Go's/the CPU's (modelled with Lean Float only for the executable correspondence; nothing is proved about IEEE-754); A-f64-int: integers below 2^53 are exact in the float64 carrier; which instruction the compiler picks for each syntactic position is covered by search here and by C02's rule soundness, not by a C04 theorem; untyped constant folding beyond 2^53 and float literals next to integer operands (finding N8) are outside the theorems.",
  technique="Lean 4 proof over BitVec (arm selection by regenerated tag table, all operand values symbolic) + exhaustive 8-bit model/implementation correspondence + native Go oracle",
  ref="7/C04"),
 "C10": dict(
  text="Machine-checked (Lean 4 kernel) for every key type, value type and operation history: the model of stringMap/numericMap (Go map + ordered key list with stale entries, lazy compaction to ANY order maps.Keys may return) refines a finite map (get_set, get_delete, len_set, len_delete, len_counts), keeps its invariant in every reachable state incl. literals with coinciding keys (inv_history, inv_ofList), and a range loop interleaved arbitrarily with inserts and deletes visits only live keys with their current values, never a key twice (so a deleted-and-reinserted or newly inserted key at most once), and on exhaustion every key live for the whole loop (visit_is_live, visits_nodup, visits_complete, range_contract). The model is tied to the real map objects by a line-by-line correspondence over generated histories that also compares the internal key list after every mutation; a native Go map and the Go range contract are the search oracle, through the host API and through generated scripts.",
  note="Trusted: Lean kernel; axioms propext, Quot.sound (Classical.choice where core lemmas use it); the Go built-in map behind `data` and maps.Keys (modelled as an arbitrary permutation, supplied by the implementation as a witness and checked to be a permutation); element conversion on store (assign) is C04's; NaN keys are excluded by the property; the nil-map front end (Value.Get/Len/Range/Delete on a nil map) is exercised by the script sweep only.",
  technique="Lean 4 proof (invariant + refinement to finite map + trace semantics of range under mutation, for every compaction order) + model/implementation correspondence incl. internal key list + native Go map oracle",
  ref="7/C10"),
 "C15": dict(
  text="Machine-checked (Lean 4 kernel) for every number of packages and every import relation: the loader's ordering loop (model Goat.Load.order, transcribed from loadImports) returns each discovered package exactly once with nothing a package imports at or after it (order_sound), succeeds on every acyclic graph with fuel = number of packages and never runs out of fuel (order_complete, order_never_out_of_fuel), succeeds if and only if the import relation is acyclic and otherwise reports an import cycle and nothing else (order_ok_iff_acyclic, cycle_is_error, cycle_no_rank incl. self-imports), and always takes the first eligible package of the sorted list (pick_first). The model (discovery worklist + ordering) is tied to the real loader by comparing its package order with VerifLoadOrder on generated in-memory trees (all graphs on <= 3 nodes, random graphs up to 12 packages with cycles); marker lines printed by every package's top-level code and init functions are the search oracle for once-only / imports-first / file selection (_test.go, //go:build incl. after a header comment, vendor/ and shortened paths, conflicting package clauses).",
  note="Trusted: Lean kernel; axioms propext, Quot.sound, Classical.choice; the discovery worklist is modelled executably and checked by correspondence only (no theorem about reachability); file selection (fs.Glob, go/build/constraint, package-clause conflict) is exercised by the oracle, not proved; that packages are compiled and run in list order is checked by the marker oracle.",
  technique="Lean 4 proof (induction over the ordering loop; acyclicity as a rank function; completeness via minimal-rank element) + model/implementation correspondence on generated file trees + marker-line oracle",
  ref="7/C15"),
 "C16": dict(
  text="Machine-checked (Lean 4 kernel) for every list of top-level nodes: treeSort (stable sort by the kind priorities regenerated from tree.go) equals the concatenation, highest priority first, of the nodes of each priority in source order (sortDesc_blocks, sort_closed_form); hence types/consts/methods/functions are hoisted in that order before all other nodes and init goes last (table_hoists, levels_desc, prio_mem_levels), every class - in particular variable initialisers and statements - keeps its source order (sort_keeps_class_order), lists that differ by a permutation of their hoistable declarations sort to lists that differ only inside those blocks (sort_respects_permutation) and the output is determined by the per-class sub-lists (sort_determined_by_classes). PARTIAL: that two declarations inside one hoisted block commute at run time (distinct global slots, interned indexes renamed) is not a Lean theorem; it is checked by search: generated packages must print the same under random permutations of their hoistable declarations and random partitions into files.",
  note="Trusted: Lean kernel; axioms propext, Quot.sound, Classical.choice; sort.SliceStable is assumed stable (the model is stable insertion sort; every stable sort computes the same list) and tied by the VerifTreeSort correspondence; goatx (priority table); joinFiles and the run-time commutation of hoisted declarations are covered by the package-permutation search only; hoistable names that coincide with a builtin (finding N7) are excluded from the generator.",
  technique="Lean 4 proof (closed form of stable sort by priority, for all lists; table facts by decide) + treeSort correspondence + permutation/partition search on generated packages",
  ref="7/C16"),
 "C08": dict(
  text="Machine-checked (Lean 4 kernel) about the model of lookup.go/compiler.go's scope operations (keys as (number of leading tildes, name) over a finite map): for a chain x, ~x, ~~x, ... of ANY length, shadow moves every entry one level out and frees level 0 touching no other name (shadow_shifts), unshadow moves every entry one level in and leaves no stale ~ entry (unshadow_unshifts - false of the code before the repair), redeclare-then-close is the identity on the whole table at every nesting depth (shadow_unshadow_id), an invisible name gets a fresh never-used slot and a visible one its own slot (index_fresh, index_visible), closing scopes never shrinks the slot count (drop_length). PARTIAL: the composition 'for every well-bracketed history the table equals the stack-of-frames environment' needs an induction over Drop's loop that is not done in Lean yet; it is covered by the correspondence (whole key->slot table compared after every operation), by a native stack-of-frames oracle (innermost binding, no stale entries, no shared slots) and by Go-toolchain (GOARCH=386) runs of generated programs that redeclare names at every kind of block boundary.",
  note="Trusted: Lean kernel; axioms propext, Quot.sound, Classical.choice (Std.HashMap lemmas); names never start with '~' (not a Go identifier character); which compile case calls Shadow/Index/Begin/End (function bodies, if, for and range bodies, switch clauses) is covered by the Go-toolchain search, not by a theorem; the Go toolchain (GOARCH=386 so that int is 32 bits) is the oracle.",
  technique="Lean 4 proof (shift lemmas by induction on chain length over a finite-map model) + model/implementation correspondence on scope-operation histories + Go toolchain oracle on generated shadowing programs",
  ref="7/C08"),
 "C05": dict(
  text="Machine-checked (Lean 4 kernel) for every expression of any size and nesting: goatlang's Pratt parser, with the binding-power table regenerated from symbol.go on this run, reads the text that Go's five-level grammar prints for a tree (with any redundant parentheses) back as exactly that tree (theorems groups_as_go, groups_as_go_ctx; table facts table_ops/table_ok/table_iso/table_order by kernel evaluation on the regenerated table; &^ by andnot_equiv). The hand-written parser model is tied to the real parser by an exhaustive + random tree-for-tree correspondence, and go/parser plus native Go evaluation search for a failing input.",
  note="Trusted: Lean kernel; axioms propext, Quot.sound, Classical.choice only; goatx table extractor; the parser model covers names, integer literals, the 18 binary and 3 prefix operators and parentheses (calls, indexing, selectors, composite literals are not in the model; they bind tighter than every operator and are exercised only by the correspondence run through the real parser); text/scanner tokenisation is trusted; values are checked by search (native Go int32/bool evaluation), not proved here (C04 carries the arithmetic).",
  technique="Lean 4 proof (induction on expressions, parser inverts precedence printer; order-isomorphism of regenerated table with Go's levels by decide) + model/implementation correspondence + go/parser oracle",
  ref="7/C05"),
}

checks = []
for p in props:
    c = CLAIMS.get(p["id"])
    if not c:
        continue
    checks.append({
        "property_id": p["id"],
        "quick_cmd": "./check %s --tier quick" % p["id"],
        "thorough_cmd": "./check %s --tier thorough" % p["id"],
        "evidence_file": "evidence/%s.json" % p["id"],
        "replay_cmd_template": "./check %s --replay {path}" % p["id"],
        "engine": "lean4+goath",
        "level_claimed": {"category": "proof", "text": c["text"], "design_ref": c["ref"]},
        "level_note": c["note"],
        "technique": c["technique"],
    })
na = [{"property_id": p["id"], "reason": "not claimed yet: its check is still being built (the model/theorems exist only in part); see DESIGN.md section 11 for the plan - no property is considered out of reach of the technique"}
      for p in props if p["id"] not in CLAIMS]
hooks_commits = ["ed3e5d7"]
m = {"version": 1,
     "setup_cmd": "./setup.sh",
     "hooks": {"guard": "verif", "enable": "go build -tags verif (harness module /verif/harness, replace github.com/philhassey/goatlang => /repo)",
               "baseline_off_cmd": "cd /repo && GOFLAGS=-mod=mod GOPROXY=off GOSUMDB=off go test -json -vet=off -count=1 -timeout 25m ./...",
               "source_commits": hooks_commits, "add_only": True},
     "engines": [
         {"name": "lean4+goath", "path": "lean/ + harness/ + extract/ + check", "serves_properties": [c["property_id"] for c in checks],
          "kind_free_text": "Lean 4 theorems over a model; tables regenerated from /repo by goatx; Go correspondence harness against compiled Lean model driver; Go-native oracles for the search step"}],
     "checks": checks,
     "notes": "Single entry point ./check. Known findings: known_findings.json. See DESIGN.md.",
     "not_applicable": na}
json.dump(m, open(os.path.join(V, "MANIFEST.json"), "w"), indent=1)
print("checks:", [c["property_id"] for c in checks])
