#!/usr/bin/env python3
"""mutate.py <worker> <nworkers> <nsites> [seed]
Operator mutation testing of the checks (a self-audit tool, not a registered check): samples mutation sites in
/repo's non-test sources, applies each in a PRIVATE copy of /repo and /verif under /tmp/mv/w<worker>, keeps the
mutants that compile and pass the repository's own test suite, runs every quick check on them and records which
check (if any) reports a violation. Survivors are equivalent mutants or gaps in the checks. Never touches /repo."""
import json, os, random, re, shutil, subprocess, sys
w, nw, nsites = int(sys.argv[1]), int(sys.argv[2]), int(sys.argv[3])
seed = int(sys.argv[4]) if len(sys.argv) > 4 else 1
base = f"/tmp/mv/w{w}"
repo, verif = base + "/repo", base + "/verif"
ENV = dict(os.environ, GOFLAGS="-mod=mod", GOPROXY="off", GOSUMDB="off", GOTOOLCHAIN="local", VERIF_REPO=repo)
FILES = ["compiler.go", "do.go", "value.go", "vm.go", "symbol.go", "parse.go", "token.go", "lookup.go", "load.go", "tree.go", "intmap.go"]
OPS = [(r" <= ", " < "), (r" < ", " <= "), (r" >= ", " > "), (r" > ", " >= "), (r" == ", " != "), (r" != ", " == "),
       (r" && ", " || "), (r" \|\| ", " && "), (r"\+ 1\b", "- 1"), (r"- 1\b", "+ 1"), (r"\+1\b", "-1"), (r"-1\b", "+1"),
       (r"\btrue\b", "false"), (r"\bfalse\b", "true"), (r"\+= ", "-= "), (r"\[:n\]", "[:n+1]"), (r"\bi\+1\b", "i"),
       (r"len\((\w+)\)-1", r"len(\1)"), (r"len\((\w+)\) - 1", r"len(\1)")]

def sites():
    out = []
    for f in FILES:
        lines = open(os.path.join("/repo", f)).read().split("\n")
        for ln, text in enumerate(lines):
            t = text.strip()
            if not t or t.startswith("//") or t.startswith("import") or '"' in t and t.count('"') > 4:
                continue
            for oi, (pat, rep) in enumerate(OPS):
                for m in re.finditer(pat, text):
                    out.append((f, ln, oi, m.start()))
            if re.match(r"^\t+[\w\.\[\]]+(\(.*\)| = .*| \+= .*|\+\+|--)$", text) and "return" not in text and "defer" not in text:
                out.append((f, ln, -1, 0))  # statement deletion
    return out

def sh(cmd, cwd, timeout=600):
    try:
        p = subprocess.run(cmd, cwd=cwd, env=ENV, capture_output=True, text=True, timeout=timeout)
        return p.returncode, p.stdout + p.stderr
    except subprocess.TimeoutExpired:
        return 124, "timeout"

def setup():
    if os.path.exists(base):
        shutil.rmtree(base)
    os.makedirs(base)
    subprocess.run(["cp", "-r", "/repo", repo]); subprocess.run(["cp", "-r", "/verif", verif])
    for d in ("harness", "extract"):
        gm = os.path.join(verif, d, "go.mod")
        if os.path.exists(gm):
            txt = open(gm).read().replace("=> /repo", "=> " + repo)
            open(gm, "w").write(txt)
    # the unmutated copy must pass before anything is believed
    rc, o = sh(["./check", "C01"], verif, timeout=900)
    if "VIOLATION" in o or rc != 0:
        print("copy is not healthy:", o[-800:]); sys.exit(3)

def main():
    allsites = sites()
    random.Random(seed).shuffle(allsites)
    mine = allsites[:nsites][w::nw]
    setup()
    res = open(f"/tmp/mv/results-{w}.jsonl", "a")
    props = ["C%02d" % i for i in range(1, 21)]
    for (f, ln, oi, col) in mine:
        path = os.path.join(repo, f)
        orig = open(os.path.join("/repo", f)).read()
        lines = orig.split("\n")
        if oi == -1:
            new = re.sub(r"^(\t+).*$", r"\1_ = 0", lines[ln]); desc = "delete: " + lines[ln].strip()
        else:
            pat, rep = OPS[oi]
            new = lines[ln][:col] + re.sub(pat, rep, lines[ln][col:], count=1); desc = f"{lines[ln].strip()}  ->  {new.strip()}"
        lines2 = list(lines); lines2[ln] = new
        open(path, "w").write("\n".join(lines2))
        rec = {"file": f, "line": ln + 1, "desc": desc}
        rc, _ = sh(["go", "build", "./..."], repo)
        rc2, _ = sh(["go", "build", "-tags", "verif", "./..."], repo) if rc == 0 else (1, "")
        if rc != 0 or rc2 != 0:
            rec["status"] = "does-not-compile"
        else:
            rc, o = sh(["go", "test", "-vet=off", "-count=1", "./..."], repo, timeout=120)
            if rc != 0:
                rec["status"] = "killed-by-suite"
            else:
                rec["status"] = "survived"
                for p in props:
                    rc, o = sh(["./check", p], verif, timeout=900)
                    if "VIOLATION" in o or rc != 0:
                        rec["status"] = "caught"; rec["by"] = p
                        rec["nfi"] = "no-failing-input-found" in o
                        break
        open(path, "w").write(orig)
        res.write(json.dumps(rec) + "\n"); res.flush()
    shutil.rmtree(base, ignore_errors=True)

main()
