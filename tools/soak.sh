#!/bin/bash
# usage: soak.sh <tier> <seed>...   runs every check for each seed on the current tree; prints non-OK lines
cd /verif || exit 2
TIER=$1; shift
for seed in "$@"; do
  for p in C01 C02 C03 C04 C05 C06 C07 C08 C09 C10 C11 C12 C13 C14 C15 C16 C17 C18 C19 C20; do
    out=$(./check $p --tier $TIER --seed $seed 2>&1)
    line=$(echo "$out" | grep "^OK\|^VIOLATION" | tail -1 | cut -c1-200)
    echo "seed=$seed $line"
    if ! echo "$line" | grep -q "^OK"; then
      echo "$out" | grep -v "^[0-9a-z. -]*$" | cut -c1-1500 | tail -6
      cp replays/$p-$TIER-1.json /tmp/soak-$p-$TIER-$seed.json 2>/dev/null
    fi
  done
done
