#!/bin/bash
# usage: try_seed.sh <property> <dir with patch.diff demo_test.go meta.json> [tier]
# Confirms the seeded change (suite passes, demo fails with / passes without), runs the check against it, restores /repo.
set -u
P=$1; D=$2; TIER=${3:-quick}
export GOFLAGS=-mod=mod GOPROXY=off GOSUMDB=off GOTOOLCHAIN=local
cd /repo || exit 2
if [ -n "$(git status --porcelain)" ]; then echo "repo dirty"; exit 2; fi
cp "$D/demo_test.go" /repo/zz_demo_test.go
echo "== demo on unchanged tree"; go test -vet=off -count=1 -run 'TestSeeded' . 2>&1 | tail -3
git apply "$D/patch.diff" || { rm -f /repo/zz_demo_test.go; exit 2; }
echo "== demo with change"; go test -vet=off -count=1 -run 'TestSeeded' . 2>&1 | tail -4
rm -f /repo/zz_demo_test.go
echo "== suite with change"; go test -vet=off -count=1 ./... 2>&1 | grep -v "no test files" | tail -3
echo "== build -tags verif"; go build -tags verif ./... 2>&1 | tail -2
cp /verif/evidence/$P.json /tmp/evidence.$P.bak 2>/dev/null
echo "== check $P ($TIER)"; cd /verif && ./check "$P" --tier "$TIER" 2>&1 | cut -c1-600 | tail -12
cp /tmp/evidence.$P.bak /verif/evidence/$P.json 2>/dev/null
git -C /repo checkout -- . ; git -C /repo status --porcelain | head -3
